package main

// System under test: the REAL local.NewHashingKeyLocationMap over the real
// record arrays, with harness-owned collaborators (block reference resolver,
// in-memory block device) and direct access to the Prometheus collectors the
// constructor registers in the default registry.

import (
	"errors"
	"fmt"
	"io"
	"sort"

	"github.com/buildbarn/bb-storage/pkg/blobstore/local"
	"github.com/prometheus/client_golang/prometheus"
	dto "github.com/prometheus/client_model/go"
	"google.golang.org/grpc/codes"
	"google.golang.org/grpc/status"

	"verifh/ev"
)

// ---------------------------------------------------------------- locations

const (
	maxBlocks = 4 // upper bound of config.MaxLive (3 in the stated space, 4 in the thorough extension)
	nOff      = 2 // 2 offsets per block
	nLocMax   = maxBlocks * nOff
)

// Two blobs per block, back to back: [0,W) and the empty blob at W (a location of size zero is a legitimate
// entry, not a free slot), with W just above 4 GiB: offsets and sizes are 64-bit quantities (blocks may be larger
// than 4 GiB), so a record array that keeps fewer bits returns a location that was never stored. The same
// (offset,size) pairs are used for every key, so equal locations under different keys occur.
const wide = int64(1)<<32 + 8

var (
	offBytes  = [nOff]int64{0, wide}
	sizeBytes = [nOff]int64{wide, 0}
)

func mkLoc(locIdx int) local.Location {
	return local.Location{BlockIndex: locIdx / nOff, OffsetBytes: offBytes[locIdx%nOff], SizeBytes: sizeBytes[locIdx%nOff]}
}

// locIndex returns block*2+offsetIndex, or -1 when l is not a member of the
// alphabet (wrong offset/size combination or block index out of [0,maxBlocks)).
// Smaller index == older (block first, then offset): the harness' own
// ordering, deliberately NOT local.Location.IsOlder.
func locIndex(l local.Location) int {
	if l.BlockIndex < 0 || l.BlockIndex >= maxBlocks {
		return -1
	}
	for o := 0; o < nOff; o++ {
		if l.OffsetBytes == offBytes[o] && l.SizeBytes == sizeBytes[o] {
			return l.BlockIndex*nOff + o
		}
	}
	return -1
}

func locName(i int) string { return fmt.Sprintf("b%do%d", i/nOff, i%nOff) }

// ---------------------------------------------------------------- resolvers

// blocks is what the search needs from a block list.
type blocks interface {
	local.BlockReferenceResolver
	push()
	release()
	live() int
}

// harnessResolver models a list of live blocks with absolute numbering.
// A reference written while the newest block has absolute index n carries
// EpochID n+1 and BlocksFromLast n-abs(block). Epoch 0 is never valid, so
// zeroed records are invalid.
type harnessResolver struct {
	oldest int // absolute index of the oldest live block
	n      int // number of live blocks
}

func seedOf(epoch uint32) uint64 { return 0x9E3779B97F4A7C15*uint64(epoch) + 0x1234567 }

func (h *harnessResolver) BlockReferenceToBlockIndex(ref local.BlockReference) (int, uint64, bool) {
	if ref.EpochID == 0 {
		return 0, 0, false
	}
	epochBlock := int(ref.EpochID) - 1 // absolute index of the newest block when written
	newest := h.oldest + h.n - 1
	if epochBlock > newest {
		return 0, 0, false
	}
	abs := epochBlock - int(ref.BlocksFromLast)
	if abs < h.oldest {
		return 0, 0, false
	}
	return abs - h.oldest, seedOf(ref.EpochID), true
}

func (h *harnessResolver) BlockIndexToBlockReference(blockIndex int) (local.BlockReference, uint64) {
	if blockIndex < 0 || blockIndex >= h.n {
		panic(fmt.Sprintf("harness resolver: block index %d out of bounds (live %d)", blockIndex, h.n))
	}
	newest := h.oldest + h.n - 1
	e := uint32(newest + 1)
	return local.BlockReference{EpochID: e, BlocksFromLast: uint16(h.n - 1 - blockIndex)}, seedOf(e)
}

func (h *harnessResolver) push()     { h.n++ }
func (h *harnessResolver) release()  { h.oldest++; h.n-- }
func (h *harnessResolver) live() int { return h.n }

// volatileBlocks is the real local.NewVolatileBlockList over the real
// in-memory block allocator.
type volatileBlocks struct {
	local.BlockList
	n int
}

func newVolatileBlocks() *volatileBlocks {
	return &volatileBlocks{BlockList: local.NewVolatileBlockList(local.NewInMemoryBlockAllocator(32))}
}

func (v *volatileBlocks) push() {
	if err := v.BlockList.PushBack(); err != nil {
		ev.HarnessError("volatile block list PushBack: %v", err)
	}
	v.n++
}
func (v *volatileBlocks) release()  { v.BlockList.PopFront(); v.n-- }
func (v *volatileBlocks) live() int { return v.n }

// ---------------------------------------------------------------- block device

// memDevice is a fixed-size blockdevice.BlockDevice over a byte slice.
type memDevice struct {
	data      []byte
	failReads int // the next failReads calls of ReadAt fail
}

var errInjectedRead = errors.New("injected transient read error")

func (d *memDevice) ReadAt(p []byte, off int64) (int, error) {
	if d.failReads > 0 {
		d.failReads--
		return 0, errInjectedRead
	}
	if off < 0 || off > int64(len(d.data)) {
		return 0, io.EOF
	}
	n := copy(p, d.data[off:])
	if n < len(p) {
		return n, io.EOF
	}
	return n, nil
}

func (d *memDevice) WriteAt(p []byte, off int64) (int, error) {
	if off < 0 || off+int64(len(p)) > int64(len(d.data)) {
		return 0, errors.New("memDevice: write beyond end of device")
	}
	return copy(d.data[off:], p), nil
}
func (d *memDevice) Sync() error  { return nil }
func (d *memDevice) Close() error { return nil }

// ---------------------------------------------------------------- collectors

const (
	famGetTooMany  = "buildbarn_blobstore_hashing_key_location_map_get_too_many_attempts_total"
	famPutIter     = "buildbarn_blobstore_hashing_key_location_map_put_iterations"
	famPutTooMany  = "buildbarn_blobstore_hashing_key_location_map_put_too_many_iterations_total"
	labelPoolSize  = 96
	labelPoolProbe = "c06-probe"
)

var putOutcomes = [4]string{"Inserted", "Updated", "IgnoredOlder", "TooManyAttempts"}

// counts is one reading of the collectors of one storage_type label.
type counts struct {
	Put       [4]uint64 // histogram sample counts by outcome (order of putOutcomes)
	PutSum    float64   // sum of iteration observations over the four outcomes
	TooManyIt uint64    // put_too_many_iterations_total
	GetTooM   uint64    // get_too_many_attempts_total
}

// discards is the quantity the property calls "each discard the index reports
// through its metrics".
func (c counts) discards() uint64 { return c.Put[3] + c.TooManyIt }

type labelHandles struct {
	label     string
	put       [4]prometheus.Metric
	tooManyIt prometheus.Metric
	getTooM   prometheus.Metric
}

func (h *labelHandles) read() counts {
	var c counts
	for i, m := range h.put {
		var d dto.Metric
		if err := m.Write(&d); err != nil || d.Histogram == nil {
			ev.HarnessError("cannot read histogram %s{%s}: %v", famPutIter, putOutcomes[i], err)
		}
		c.Put[i] = d.Histogram.GetSampleCount()
		c.PutSum += d.Histogram.GetSampleSum()
	}
	var d dto.Metric
	if err := h.tooManyIt.Write(&d); err != nil || d.Counter == nil {
		ev.HarnessError("cannot read counter %s: %v", famPutTooMany, err)
	}
	c.TooManyIt = uint64(d.Counter.GetValue())
	var g dto.Metric
	if err := h.getTooM.Write(&g); err != nil || g.Counter == nil {
		ev.HarnessError("cannot read counter %s: %v", famGetTooMany, err)
	}
	c.GetTooM = uint64(g.Counter.GetValue())
	return c
}

func (a counts) minus(b counts) counts {
	var d counts
	for i := range a.Put {
		d.Put[i] = a.Put[i] - b.Put[i]
	}
	d.PutSum = a.PutSum - b.PutSum
	d.TooManyIt = a.TooManyIt - b.TooManyIt
	d.GetTooM = a.GetTooM - b.GetTooM
	return d
}

// missingFamily, when set, is told about a discard metric the map's constructor did not instantiate (and ends the run).
var missingFamily func(name string)

var labelPool chan *labelHandles
var allLabels []*labelHandles

// existingCollector fetches the collector the repository registered in the
// default registry under the given family name: a collector with the same
// descriptor (name, help, label names - help is taken from a Gather) is
// offered for registration, and the AlreadyRegisteredError hands back the
// original. This reads the real collectors without naming any unexported
// identifier of the repository.
func existingCollector(name string, histogram bool, labels []string) prometheus.Collector {
	mfs, err := prometheus.DefaultGatherer.Gather()
	if err != nil {
		ev.HarnessError("gather: %v", err)
	}
	help, found := "", false
	for _, mf := range mfs {
		if mf.GetName() == name {
			help, found = mf.GetHelp(), true
		}
	}
	if !found {
		// A vector without children is not gathered: constructing the map did not instantiate this metric for
		// its storage type, so a discard of that kind could never be reported through it.
		if missingFamily != nil {
			missingFamily(name)
		}
		ev.HarnessError("metric family %s is not in the default registry after constructing a hashingKeyLocationMap", name)
	}
	var c prometheus.Collector
	if histogram {
		c = prometheus.NewHistogramVec(prometheus.HistogramOpts{Name: name, Help: help}, labels)
	} else {
		c = prometheus.NewCounterVec(prometheus.CounterOpts{Name: name, Help: help}, labels)
	}
	err = prometheus.Register(c)
	var are prometheus.AlreadyRegisteredError
	if err == nil || !errors.As(err, &are) {
		ev.HarnessError("could not obtain the registered collector %s (register returned %v)", name, err)
	}
	return are.ExistingCollector
}

func initCollectors() {
	// The constructor registers the collectors; create one throw-away map so
	// that every family has at least one child and shows up in Gather.
	res := &harnessResolver{}
	klm := local.NewHashingKeyLocationMap(local.NewInMemoryLocationRecordArray(1, res), 1, 0, 1, 1, labelPoolProbe)
	res.push()
	klm.Put(local.NewKeyFromString("probe"), mkLoc(0))
	klm.Get(local.NewKeyFromString("other"))
	klm.Put(local.NewKeyFromString("other2"), mkLoc(0)) // TooManyAttempts: occupied by an equally old record

	hv, ok1 := existingCollector(famPutIter, true, []string{"storage_type", "outcome"}).(*prometheus.HistogramVec)
	ti, ok2 := existingCollector(famPutTooMany, false, []string{"storage_type"}).(*prometheus.CounterVec)
	gt, ok3 := existingCollector(famGetTooMany, false, []string{"storage_type"}).(*prometheus.CounterVec)
	if !ok1 || !ok2 || !ok3 {
		ev.HarnessError("registered collectors have unexpected types")
	}
	mk := func(label string) *labelHandles {
		h := &labelHandles{label: label}
		for i, oc := range putOutcomes {
			o, err := hv.GetMetricWith(prometheus.Labels{"storage_type": label, "outcome": oc})
			if err != nil {
				ev.HarnessError("histogram child: %v", err)
			}
			m, ok := o.(prometheus.Metric)
			if !ok {
				ev.HarnessError("histogram child is not a prometheus.Metric")
			}
			h.put[i] = m
		}
		var err error
		if h.tooManyIt, err = ti.GetMetricWith(prometheus.Labels{"storage_type": label}); err != nil {
			ev.HarnessError("counter child: %v", err)
		}
		if h.getTooM, err = gt.GetMetricWith(prometheus.Labels{"storage_type": label}); err != nil {
			ev.HarnessError("counter child: %v", err)
		}
		return h
	}
	// Self-test of the reading path on the probe label. Only the part that no
	// behavioural change of Put can influence is demanded (a Put into an empty
	// table is observed as Inserted): the readings themselves are the subject
	// of the oracle, not of the self-test.
	p := mk(labelPoolProbe).read()
	if p.Put[0] < 1 || p.PutSum < 1 {
		ev.HarnessError("collector self-test: unexpected reading %+v for the probe instance", p)
	}
	labelPool = make(chan *labelHandles, labelPoolSize)
	for i := 0; i < labelPoolSize; i++ {
		h := mk(fmt.Sprintf("c06-w%02d", i))
		allLabels = append(allLabels, h)
		labelPool <- h
	}
}

// crossCheckGatherer compares the directly read collectors with what
// prometheus.DefaultGatherer exports (once, at the end of the run).
func crossCheckGatherer() (discards uint64, getTooMany uint64) {
	mfs, err := prometheus.DefaultGatherer.Gather()
	if err != nil {
		ev.HarnessError("gather: %v", err)
	}
	type g struct {
		tma, tmi, gtm uint64
	}
	byLabel := map[string]*g{}
	at := func(l string) *g {
		if byLabel[l] == nil {
			byLabel[l] = &g{}
		}
		return byLabel[l]
	}
	for _, mf := range mfs {
		for _, m := range mf.GetMetric() {
			st, oc := "", ""
			for _, lp := range m.GetLabel() {
				switch lp.GetName() {
				case "storage_type":
					st = lp.GetValue()
				case "outcome":
					oc = lp.GetValue()
				}
			}
			switch mf.GetName() {
			case famPutIter:
				if oc == "TooManyAttempts" {
					at(st).tma = m.GetHistogram().GetSampleCount()
				}
			case famPutTooMany:
				at(st).tmi = uint64(m.GetCounter().GetValue())
			case famGetTooMany:
				at(st).gtm = uint64(m.GetCounter().GetValue())
			}
		}
	}
	for _, h := range allLabels {
		c := h.read()
		x := at(h.label)
		if c.Put[3] != x.tma || c.TooManyIt != x.tmi || c.GetTooM != x.gtm {
			ev.HarnessError("collector reading for %s (%+v) disagrees with DefaultGatherer (%+v)", h.label, c, *x)
		}
		discards += c.discards()
		getTooMany += c.GetTooM
	}
	return
}

// ---------------------------------------------------------------- instance

type config struct {
	Backend  string   `json:"backend"` // mem-harness | mem-volatile | dev-harness | dev-volatile
	Size     int      `json:"size"`
	MaxLive  int      `json:"max_live_blocks"`
	G        uint32   `json:"max_get_attempts"`
	P        int      `json:"max_put_attempts"`
	HashInit uint64   `json:"hash_init"`
	Keys     []string `json:"keys"`

	keys   []local.Key
	keyIdx map[local.Key]int
}

func (c *config) init() {
	if c.MaxLive == 0 {
		c.MaxLive = 3
	}
	if c.MaxLive > maxBlocks || len(c.Keys) > 4 {
		ev.HarnessError("configuration outside the supported alphabet: %d live blocks, %d keys", c.MaxLive, len(c.Keys))
	}
	c.keys = nil
	c.keyIdx = map[local.Key]int{}
	for i, s := range c.Keys {
		k := local.NewKeyFromString(s)
		c.keys = append(c.keys, k)
		c.keyIdx[k] = i
	}
}

func (c *config) name() string {
	return fmt.Sprintf("%s/size%d/live%d/get%d/put%d/init%#x/keys%v", c.Backend, c.Size, c.MaxLive, c.G, c.P, c.HashInit, c.Keys)
}

type instance struct {
	cfg *config
	dev *memDevice
	klm local.KeyLocationMap
	arr local.LocationRecordArray
	bl  blocks
	h   *labelHandles
}

func newInstance(cfg *config, h *labelHandles) *instance {
	in := &instance{cfg: cfg, h: h}
	switch cfg.Backend {
	case "mem-harness", "dev-harness":
		in.bl = &harnessResolver{}
	case "mem-volatile", "dev-volatile":
		in.bl = newVolatileBlocks()
	default:
		ev.HarnessError("unknown backend %q", cfg.Backend)
	}
	switch cfg.Backend {
	case "mem-harness", "mem-volatile":
		in.arr = local.NewInMemoryLocationRecordArray(cfg.Size, in.bl)
	default:
		dev := &memDevice{data: make([]byte, cfg.Size*local.BlockDeviceBackedLocationRecordSize)}
		in.dev = dev
		in.arr = local.NewBlockDeviceBackedLocationRecordArray(dev, in.bl)
	}
	in.klm = local.NewHashingKeyLocationMap(in.arr, cfg.Size, cfg.HashInit, cfg.G, cfg.P, h.label)
	return in
}

// Operation numbering: put(k,loc) = k*nLoc+loc, then push, then release; on the block-device backends then
// putF(k,loc): the same Put with the device failing the first record read of that call.
func (c *config) nLoc() int { return c.MaxLive * nOff }
func (c *config) hasFaultOps() bool {
	return c.Backend == "dev-harness" || c.Backend == "dev-volatile"
}
func (c *config) opFault0() int          { return len(c.keys)*c.nLoc() + 2 }
func (c *config) isFaultPut(op int) bool { return op >= c.opFault0() }
func (c *config) nOps() int {
	if c.hasFaultOps() {
		return 2*len(c.keys)*c.nLoc() + 2
	}
	return len(c.keys)*c.nLoc() + 2
}
func (c *config) opPush() int    { return len(c.keys) * c.nLoc() }
func (c *config) opRelease() int { return len(c.keys)*c.nLoc() + 1 }

func (c *config) opName(op int) string {
	switch {
	case op == c.opPush():
		return "push"
	case op == c.opRelease():
		return "release"
	case c.isFaultPut(op):
		o := op - c.opFault0()
		return fmt.Sprintf("putF %s %s", c.Keys[o/c.nLoc()], locName(o%c.nLoc()))
	default:
		return fmt.Sprintf("put %s %s", c.Keys[op/c.nLoc()], locName(op%c.nLoc()))
	}
}

func (c *config) parseOp(s string) int {
	for op := 0; op < c.nOps(); op++ {
		if c.opName(op) == s {
			return op
		}
	}
	ev.HarnessError("unknown operation %q", s)
	return -1
}

func (c *config) enabled(op, live int) bool {
	switch {
	case op == c.opPush():
		return live < c.MaxLive
	case op == c.opRelease():
		return live > 0
	case c.isFaultPut(op):
		return ((op-c.opFault0())%c.nLoc())/nOff < live
	default:
		return (op%c.nLoc())/nOff < live
	}
}

// apply executes one operation on the real objects; the error is Put's.
func (in *instance) apply(op int) error {
	c := in.cfg
	switch {
	case op == c.opPush():
		in.bl.push()
		return nil
	case op == c.opRelease():
		in.bl.release()
		return nil
	case c.isFaultPut(op):
		o := op - c.opFault0()
		in.dev.failReads = 1
		err := in.klm.Put(c.keys[o/c.nLoc()], mkLoc(o%c.nLoc()))
		in.dev.failReads = 0
		return err
	default:
		return in.klm.Put(c.keys[op/c.nLoc()], mkLoc(op%c.nLoc()))
	}
}

// getRes is the observation of one real Get.
type getRes struct {
	Found bool           `json:"found"`
	Loc   int            `json:"loc"` // alphabet index, -1 if the returned location is outside the alphabet
	Raw   local.Location `json:"raw"`
	Err   string         `json:"err,omitempty"` // set for errors other than NOT_FOUND
}

func (g getRes) String() string {
	switch {
	case g.Err != "":
		return "error(" + g.Err + ")"
	case !g.Found:
		return "-"
	case g.Loc >= 0:
		return locName(g.Loc)
	default:
		return fmt.Sprintf("%+v", g.Raw)
	}
}

func (in *instance) getAll() []getRes {
	out := make([]getRes, len(in.cfg.keys))
	for i, k := range in.cfg.keys {
		l, err := in.klm.Get(k)
		switch {
		case err == nil:
			out[i] = getRes{Found: true, Loc: locIndex(l), Raw: l}
		case status.Code(err) == codes.NotFound:
			out[i] = getRes{Loc: -1}
		default:
			out[i] = getRes{Loc: -1, Err: err.Error()}
		}
	}
	return out
}

// canon is the canonical form of the implementation state: the number of live
// blocks and, for every slot, what the REAL LocationRecordArray.Get returns
// (invalid, or key/attempt/location with the block index relative to the
// oldest live block - which is what Get yields by construction).
func (in *instance) canon() string {
	c := in.cfg
	b := make([]byte, 0, 2+4*c.Size)
	b = append(b, byte('0'+in.bl.live()), ':')
	for s := 0; s < c.Size; s++ {
		rec, err := in.arr.Get(s)
		switch {
		case err == local.ErrLocationRecordInvalid:
			b = append(b, '.')
		case err != nil:
			b = append(b, ("E(" + err.Error() + ")")...)
		default:
			ki, ok := c.keyIdx[rec.RecordKey.Key]
			li := locIndex(rec.Location)
			if ok && li >= 0 && rec.RecordKey.Attempt < 10 {
				b = append(b, byte('a'+ki), byte('0'+rec.RecordKey.Attempt), byte('A'+li))
			} else {
				b = append(b, fmt.Sprintf("?(%x,%d,%+v)", rec.RecordKey.Key[:4], rec.RecordKey.Attempt, rec.Location)...)
			}
		}
		b = append(b, '|')
	}
	return string(b)
}

// describeTable renders canon() for humans.
func (in *instance) describeTable() string {
	c := in.cfg
	var parts []string
	for s := 0; s < c.Size; s++ {
		rec, err := in.arr.Get(s)
		switch {
		case err == local.ErrLocationRecordInvalid:
			parts = append(parts, "_")
		case err != nil:
			parts = append(parts, "error:"+err.Error())
		default:
			name := fmt.Sprintf("%x", rec.RecordKey.Key[:4])
			if ki, ok := c.keyIdx[rec.RecordKey.Key]; ok {
				name = c.Keys[ki]
			}
			l := fmt.Sprintf("%+v", rec.Location)
			if li := locIndex(rec.Location); li >= 0 {
				l = locName(li)
			}
			parts = append(parts, fmt.Sprintf("%s@%d=%s", name, rec.RecordKey.Attempt, l))
		}
	}
	return fmt.Sprintf("live=%d [%s]", in.bl.live(), joinStrings(parts, " "))
}

func joinStrings(p []string, sep string) string {
	out := ""
	for i, s := range p {
		if i > 0 {
			out += sep
		}
		out += s
	}
	return out
}

func sortedKeys(m map[string]int64) []string {
	var ks []string
	for k := range m {
		ks = append(ks, k)
	}
	sort.Strings(ks)
	return ks
}
