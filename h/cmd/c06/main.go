// C06 - key-location index: lookups are sound; entries are displaced
// oldest-first, never silently.
//
// Explicit-state search (vstate) over the REAL local.NewHashingKeyLocationMap:
// breadth-first over all sequences of
//
//	put(k, location)   k in 3-4 colliding keys, location in (live block) x 2 offsets,
//	                   the same locations for every key
//	push               append a block (at most 3 live)
//	release            release the oldest block
//
// followed after every transition by Get(k) for every key. A state is its
// shortest operation path; successors are computed by replaying the path on a
// fresh instance. Four back ends: {in-memory, block-device backed} record
// array x {harness resolver with absolute block numbering, the real
// local.NewVolatileBlockList}. Table sizes {1,2,3,5}, get attempts {1,2,3},
// put attempts {1,2,4}. The oracle is evaluated on every transition against a
// reference model and the Prometheus collectors of the map.
package main

import (
	"fmt"
	"os"
	"sort"
	"strings"
	"time"

	"verifh/ev"
	"verifh/par"
)

type plan struct {
	sub  string
	cfg  *config
	kc   keyChoice
	res  *bfsResult
	wall float64
}

func main() {
	r := ev.Start("C06")
	r.Rule("vstate: every transition (distinct canonical state x enabled operation) is judged once; non-trivial = a put that needed >= 2 probe iterations or ended in a reported discard, or a release that removed >= 1 visible entry")
	r.Assume("observation = Get(k) for every key of the alphabet immediately before and after every operation; a Put is judged against 'stored key := newer(previous lookup, new location), every other lookup unchanged' where 'newer' is the harness' own (block, offset) order")
	r.Assume("a discard reported through the metrics = increase, during the Put call, of buildbarn_blobstore_hashing_key_location_map_put_iterations{outcome=\"TooManyAttempts\"} sample count + buildbarn_blobstore_hashing_key_location_map_put_too_many_iterations_total, read from the collectors registered in the default registry (obtained through AlreadyRegisteredError.ExistingCollector; cross-checked once against prometheus.DefaultGatherer)")
	r.Assume("Put: #keys whose lookup deviates from the expectation <= #discards reported during that call; a deviating key shows nothing or an OLDER location (stored for that key, live block - soundness clause); the expected entry it lost is not newer than the location being stored")
	r.Assume("Release of the oldest block: a key whose lookup pointed into it is afterwards not found; a key whose lookup pointed elsewhere yields the same location (block index shifted by one); a key that was not found stays not found. (The reading 'or falls back to an older location' is vacuous here: anything older than a location in the oldest block is in the oldest block.)")
	r.Assume("NOT_FOUND from Get is always sound for the lookup clause (also when caused by the get attempt limit); it is only the Put/Release clauses that constrain when a previously found key may become not found")
	r.Assume("state identity: (number of live blocks; for every slot the result of the real LocationRecordArray.Get - invalid, or key/attempt/offset/size and block index relative to the oldest live block) + per key the set of live locations ever stored. Exactness: the map reads the array only through Get; a record that is invalid never becomes valid again (epoch 0 is never issued, released blocks never return, epochs are only written as the current newest; 2^32 epoch wrap-around excluded), and two records with equal Get result but different (epoch, blocks-from-last) encodings resolve identically under every future push/release. Hence equal canonical forms have equal futures irrespective of absolute block numbers, and the search closes although absolute numbers grow without bound.")
	r.Assume("history subsumption: a successor is not expanded when a known state has the same table and a stored-location history that is a SUBSET of the successor's: the oracle uses the history only positively ('was stored for k'), the implementation behaves identically, and subset is preserved by every operation, so every violation reachable from the dropped state is reachable (same operations) from the kept one. Violations themselves are always judged with the exact history of the actual path.")
	r.Assume("volatile block list variant: epoch hash seeds come from the repository's CryptoThreadSafeGenerator; they are never observable except through a 2^-64 checksum collision, so the run is deterministic in everything that is compared")

	missingFamily = func(name string) {
		if name == famGetTooMany {
			return
		}
		ms := r.NewSub("metrics", "vstate", "the discard metrics exist once a map has been constructed")
		ms.Evaluations, ms.States, ms.Transitions, ms.Nontrivial, ms.Outcomes = 1, 1, 1, 1, 1
		r.Violate(ev.Violation{Signature: "metrics:discard-metric-not-instantiated", Sub: "metrics", Message: fmt.Sprintf("constructing a hashingKeyLocationMap did not instantiate %s for its storage type: a discard of that kind cannot be reported through the index's metrics", name), Case: map[string]string{"metric": name}})
		r.Finish()
	}
	initCollectors()

	if r.Replay != "" {
		replay(r, ev.LoadReplay(r.Replay))
		r.Finish()
	}

	backends := ev.Pick(r, []string{"mem-harness", "dev-volatile"}, []string{"mem-harness", "mem-volatile", "dev-harness", "dev-volatile"})
	sizes := []int{1, 2, 3, 5}
	gets := []uint32{1, 2, 3}
	puts := []int{1, 2, 4}
	type gp struct {
		g uint32
		p int
	}
	var gpsAll []gp
	for _, g := range gets {
		for _, p := range puts {
			gpsAll = append(gpsAll, gp{g, p})
		}
	}
	maxStates := ev.Pick(r, 400000, 6000000)

	// Key choices: (size, number of keys, variant). Variant 1 = best choice
	// over all candidate hash initialisations, variant 2 = best choice that
	// uses a different hash initialisation.
	type kcKey struct{ size, nk, variant int }
	choices := map[kcKey]keyChoice{}
	var choiceOrder []kcKey
	for _, size := range sizes {
		for _, nk := range []int{3, 4} {
			first := chooseKeys(size, nk, nil)
			choices[kcKey{size, nk, 1}] = first
			choices[kcKey{size, nk, 2}] = chooseKeys(size, nk, map[uint64]bool{first.HashInit: true})
			choiceOrder = append(choiceOrder, kcKey{size, nk, 1}, kcKey{size, nk, 2})
		}
	}
	// Which key choices run in which tier.
	wantChoice := func(k kcKey, g uint32, p int) bool {
		if r.Thorough() {
			return true
		}
		// quick: 3 keys/best hash initialisation for all 9 attempt limits;
		// 4 keys (best) for the extreme limits only.
		if k.variant != 1 {
			return false
		}
		if k.nk == 3 {
			return true
		}
		return (g == 3 && p == 4) || (g == 2 && p == 2 && k.size >= 3)
	}

	var plans []*plan
	for _, b := range backends {
		for _, size := range sizes {
			sub := fmt.Sprintf("%s/size%d", b, size)
			if !r.Want(sub) {
				continue
			}
			for _, x := range gpsAll {
				for _, ck := range choiceOrder {
					if ck.size != size || !wantChoice(ck, x.g, x.p) {
						continue
					}
					kc := choices[ck]
					c := &config{Backend: b, Size: size, MaxLive: 3, G: x.g, P: x.p, HashInit: kc.HashInit, Keys: kc.Keys}
					c.init()
					plans = append(plans, &plan{sub: sub, cfg: c, kc: kc})
				}
			}
		}
	}
	// Thorough-only extension beyond the stated alphabet: 4 live blocks (8
	// locations per key) for the larger tables and the larger attempt limits.
	if r.Thorough() {
		for _, b := range []string{"mem-harness", "dev-volatile"} {
			for _, size := range []int{3, 5} {
				sub := fmt.Sprintf("%s/size%d/live4", b, size)
				if !r.Want(sub) {
					continue
				}
				for _, x := range []gp{{2, 2}, {3, 2}, {3, 4}} {
					for _, nk := range []int{3, 4} {
						kc := choices[kcKey{size, nk, 1}]
						c := &config{Backend: b, Size: size, MaxLive: 4, G: x.g, P: x.p, HashInit: kc.HashInit, Keys: kc.Keys}
						c.init()
						plans = append(plans, &plan{sub: sub, cfg: c, kc: kc})
					}
				}
			}
		}
	}
	// Largest configurations first (better load balance); results are merged
	// in plan order afterwards, so the evidence does not depend on scheduling.
	order := make([]int, len(plans))
	for i := range order {
		order[i] = i
	}
	sort.SliceStable(order, func(a, b int) bool {
		pa, pb := plans[order[a]].cfg, plans[order[b]].cfg
		wa := pa.MaxLive*1000 + pa.Size*100 + len(pa.Keys)*30 + int(pa.G)*5 + pa.P
		wb := pb.MaxLive*1000 + pb.Size*100 + len(pb.Keys)*30 + int(pb.G)*5 + pb.P
		return wa > wb
	})
	par.For(len(order), func(i int) {
		p := plans[order[i]]
		t := time.Now()
		p.res = bfs(p.cfg, maxStates, 60)
		p.wall = time.Since(t).Seconds()
	})

	// ---- report ----
	subs := map[string]*ev.Sub{}
	subOutcomes := map[string]*ev.Set{}
	maxLiveOf := map[string]int{}
	var subOrder []string
	globalSamples := map[string]sampleT{}
	allOutcomes := map[string]int64{}
	for _, p := range plans {
		s := subs[p.sub]
		if s == nil {
			s = r.NewSub(p.sub, "vstate", "")
			s.Exhaustive = true
			s.Extra = map[string]any{"configurations": []any{}}
			subs[p.sub] = s
			subOutcomes[p.sub] = &ev.Set{}
			subOrder = append(subOrder, p.sub)
		}
		maxLiveOf[p.sub] = p.cfg.MaxLive
		res := p.res
		if os.Getenv("C06_DEBUG") != "" {
			fmt.Printf("DEBUG %-70s states=%-8d trans=%-9d depth=%-3d fix=%v pruned=%d antichain=%d disc=%d fallback=%d wall=%.1fs slots=%v\n", p.cfg.name(), res.states, res.transitions, res.depth, res.fixpoint, res.pruned, res.maxAntichain, res.withDiscard, res.devFallback, p.wall, p.kc.Seqs)
		}
		s.Evaluations += res.transitions
		s.Transitions += res.transitions
		s.States += res.states
		s.Nontrivial += res.nontrivial
		s.Validated += res.validated
		s.WallS += p.wall
		for oc, n := range res.outcomes {
			subOutcomes[p.sub].Add(oc)
			allOutcomes[oc] += n
		}
		if !res.fixpoint {
			s.Exhaustive = false
			s.CapsHit = append(s.CapsHit, fmt.Sprintf("get%d/put%d/%dkeys/init%#x: %s (BFS complete to the depth before)", p.cfg.G, p.cfg.P, len(p.cfg.Keys), p.cfg.HashInit, res.cap))
		}
		s.Extra["configurations"] = append(s.Extra["configurations"].([]any), map[string]any{
			"max_get_attempts": p.cfg.G, "max_put_attempts": p.cfg.P, "hash_init": fmt.Sprintf("%#x", p.cfg.HashInit), "keys": p.cfg.Keys,
			"probe_slots": p.kc.Seqs, "states": res.states, "transitions": res.transitions, "fixpoint": res.fixpoint, "max_depth": res.depth,
			"subsumed_successors": res.pruned, "max_histories_per_table": res.maxAntichain,
			"transitions_with_reported_discard": res.withDiscard, "transitions_with_fallback": res.devFallback, "violating_transitions": len(res.viols),
		})
		for _, oc := range sortedOutcomes(res.samples) {
			if _, ok := globalSamples[oc]; !ok {
				globalSamples[oc] = res.samples[oc]
			}
		}
		for _, v := range res.viols {
			v.Sub = p.sub
			r.Violate(v)
		}
	}
	for _, name := range subOrder {
		s := subs[name]
		s.Outcomes = subOutcomes[name].Len()
		cfgs := s.Extra["configurations"].([]any)
		fix, maxDepth := 0, 0
		for _, c := range cfgs {
			m := c.(map[string]any)
			if m["fixpoint"].(bool) {
				fix++
			}
			if d := m["max_depth"].(int); d > maxDepth {
				maxDepth = d
			}
		}
		s.Space = fmt.Sprintf("%d configurations (get attempts x put attempts x key/hash-initialisation choice) of backend/table size %s; per configuration ALL sequences of put(k,loc) [k in 3-4 pairwise colliding keys, loc in live block(<=%d) x 2 offsets, equal locations under different keys included], push, release-oldest, with Get of every key after every operation; BFS over canonical states", len(cfgs), name, maxLiveOf[name])
		s.BoundCompleted = fmt.Sprintf("fixpoint in %d/%d configurations, deepest shortest path %d", fix, len(cfgs), maxDepth)
	}
	// Key choices in the evidence.
	for _, ck := range choiceOrder {
		kc := choices[ck]
		r.Note(fmt.Sprintf("key choice size=%d nkeys=%d variant=%d: hash_init=%#x keys=%v probe slots (attempt 0,1,2)=%v own-distinct-slots/distinct sequences/slots covered/same-attempt-0 pairs/cross-attempt pairs=%v searched (inits,tuples)=%v",
			ck.size, ck.nk, ck.variant, kc.HashInit, kc.Keys, kc.Seqs, kc.Stats, kc.Searched))
	}
	var ocs []string
	for _, oc := range sortedKeys(allOutcomes) {
		ocs = append(ocs, fmt.Sprintf("%s x%d", oc, allOutcomes[oc]))
	}
	r.Note("transition outcome classes (metric outcome : probe iterations : deviation of a lookup from the expectation) with counts: " + strings.Join(ocs, "; "))
	disc, gtm := crossCheckGatherer()
	r.Note(fmt.Sprintf("collector totals over the whole run (replayed prefixes included), direct reading == DefaultGatherer: discards=%d get_too_many_attempts=%d", disc, gtm))

	// Samples: prefer transitions with a fallback, then discards, then the rest.
	pri := func(oc string) int {
		switch {
		case strings.Contains(oc, "-older"):
			return 0
		case strings.Contains(oc, "-nothing"):
			return 1
		case strings.Contains(oc, "TooMany"):
			return 2
		case strings.HasPrefix(oc, "release"):
			return 3
		default:
			return 4
		}
	}
	soc := sortedOutcomes(globalSamples)
	sort.SliceStable(soc, func(a, b int) bool {
		if pri(soc[a]) != pri(soc[b]) {
			return pri(soc[a]) < pri(soc[b])
		}
		return len(globalSamples[soc[a]].Path) > len(globalSamples[soc[b]].Path)
	})
	for i, oc := range soc {
		if i >= 12 {
			break
		}
		r.Sample(globalSamples[oc])
	}
	for _, b := range backends {
		d := ev.Pick(r, 6, 7)
		if b == "dev-harness" || b == "dev-volatile" {
			d-- // the fault variants double the alphabet
		}
		seqSearch(r, b, choices[kcKey{3, 3, 1}], 3, d)
	}
	r.Finish()
}

// replay re-executes one recorded path with the oracle on every operation.
func replay(r *ev.Run, rf ev.ReplayFile) {
	var vc violCase
	ev.MustJSON(rf.Case, &vc)
	c := &vc.Config
	c.init()
	h := <-labelPool
	in := newInstance(c, h)
	var m model
	fmt.Printf("replay %s\n", c.name())
	for i, s := range vc.Path {
		op := c.parseOp(s)
		if !c.enabled(op, m.live) {
			ev.HarnessError("operation %q not enabled with %d live blocks", s, m.live)
		}
		before := in.getAll()
		so := step(in, &m, op, before)
		fmt.Printf("  %2d %-14s lookups: %s  table: %s  discards+%d  outcome=%s\n", i+1, s, visString(c, so.after), in.describeTable(), so.delta.discards(), so.outcome)
		for _, v := range so.viols {
			fmt.Printf("     VIOLATES %s: %s\n", v.Sig, v.Msg)
			r.Violate(ev.Violation{Signature: v.Sig, Sub: rf.Sub, Message: fmt.Sprintf("[%s] after %v: %s", c.name(), vc.Path[:i], v.Msg), Case: violCase{Config: *c, Path: vc.Path[:i+1]}})
		}
	}
}
