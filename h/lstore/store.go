//go:build verif

package lstore

import (
	"sort"
	"context"
	"fmt"
	"io"
	"time"

	"github.com/buildbarn/bb-storage/pkg/blobstore"
	"github.com/buildbarn/bb-storage/pkg/blobstore/buffer"
	"github.com/buildbarn/bb-storage/pkg/blobstore/local"
	"github.com/buildbarn/bb-storage/pkg/clock"
	"github.com/buildbarn/bb-storage/pkg/digest"
	"github.com/buildbarn/bb-storage/pkg/eviction"
	pb "github.com/buildbarn/bb-storage/pkg/proto/blobstore/local"
	"github.com/buildbarn/bb-storage/pkg/random"
	"github.com/buildbarn/bb-storage/pkg/verifshim/vsched"
	"github.com/buildbarn/bb-storage/pkg/verifshim/vsync"
	"github.com/fxtlabs/primes"
	"google.golang.org/grpc/codes"
	"google.golang.org/grpc/status"
	"google.golang.org/protobuf/proto"
)

// Geometry is the configuration of one local store.
type Geometry struct {
	SectorSize      int
	SectorsPerBlock int
	Old, Current    int
	New, Spare      int
	Mutable         bool // AC-style growth policy (one new block), else CAS-style
	AC              bool // AC read buffer factory (Protobuf validation) and instance-aware keys
	Hierarchical    bool
	Persistent      bool
	InMemoryBlocks  bool // in-memory allocator instead of the block-device one
	IndexOnDevice   bool
	IndexSlots      int
	GetAttempts     uint32
	PutAttempts     int
	RawReads        bool // non-validating read buffer factory: wrong bytes are returned, not masked
	// IntegrityCache puts the repository's ValidationCachingReadBufferFactory (the
	// data_integrity_validation_cache option of blocks_on_block_device) between the tracking decorator
	// and the CAS/AC factory: a repeated read of a validated object is served without checksumming.
	IntegrityCache bool
	// ExistenceCache puts an existence_caching decorator (16 entries, one virtual hour) in front of the store,
	// keyed by the digest key format the real wiring announces for the local backend (real wiring only).
	ExistenceCache bool
	DataGates      bool
	IndexGates     bool
	DirGates       bool
	// Persistence timing (virtual).
	MinEpochInterval time.Duration
	ErrorRetry       time.Duration
}

// BlockSize returns the block size in bytes.
func (g Geometry) BlockSize() int { return g.SectorSize * g.SectorsPerBlock }

// BlockCount returns the number of device regions.
func (g Geometry) BlockCount() int { return g.Spare + g.Old + g.Current + g.New }

func (g Geometry) String() string {
	return fmt.Sprintf("S%dxB%d o%dc%dn%dp%d mut=%v ac=%v hier=%v pers=%v mem=%v idxdev=%v slots=%d/%d/%d raw=%v",
		g.SectorSize, g.SectorsPerBlock, g.Old, g.Current, g.New, g.Spare, g.Mutable, g.AC, g.Hierarchical, g.Persistent, g.InMemoryBlocks, g.IndexOnDevice, g.IndexSlots, g.GetAttempts, g.PutAttempts, g.RawReads) + map[bool]string{true: " integritycache", false: ""}[g.IntegrityCache]
}

// everListed reports whether any state the store has read or successfully written listed the region.
func (s *Store) everListed(off int64) bool {
	states := append([]*pb.PersistentState{s.InitialState}, s.StateStore.Written...)
	for _, st := range states {
		if st == nil {
			continue
		}
		for _, bs := range st.Blocks {
			if bs.BlockLocation.OffsetBytes == off {
				return true
			}
		}
	}
	return false
}

// Media is everything that survives a restart.
type Media struct {
	Data  *SimBlockDevice
	Index *SimBlockDevice
	Dir   *SimDirectory
	Rand  *DetRand
	// Journal is the global order of logged I/O operations since the media were created / cloned.
	Journal []JEntry
	// Base is a snapshot of the images and files at the time this Media value was created or cloned
	// (what the medium looked like when the current run started).
	Base *Media
}

func (m *Media) wire() {
	m.Data.Journal, m.Data.JKind = &m.Journal, 'D'
	if m.Index != nil {
		m.Index.Journal, m.Index.JKind = &m.Journal, 'I'
	}
	m.Dir.Journal = &m.Journal
}

func (m *Media) snapshot() *Media {
	b := &Media{Rand: &DetRand{Counter: m.Rand.Counter}}
	b.Data = m.Data.Clone()
	if m.Index != nil {
		b.Index = m.Index.Clone()
	}
	b.Dir = m.Dir.Clone()
	return b
}

// NewMedia creates blank media for a geometry.
func NewMedia(g Geometry) *Media {
	m := &Media{Rand: &DetRand{}}
	m.Data = NewDevice("data", g.BlockCount()*g.BlockSize(), g.SectorSize, g.DataGates, true)
	if g.IndexOnDevice {
		m.Index = NewDevice("index", g.IndexSlots*local.BlockDeviceBackedLocationRecordSize, 1, g.IndexGates, false)
	}
	m.Dir = NewDirectory(g.DirGates)
	m.wire()
	m.Base = m.snapshot()
	return m
}

// Clone copies the media (images, files, random counter), not the logs.
func (m *Media) Clone() *Media {
	c := &Media{Rand: &DetRand{Counter: m.Rand.Counter}}
	c.Data = m.Data.Clone()
	if m.Index != nil {
		c.Index = m.Index.Clone()
	}
	c.Dir = m.Dir.Clone()
	c.wire()
	c.Base = c.snapshot()
	return c
}

// ErrorLog records messages given to the util.ErrorLogger.
type ErrorLog struct {
	Messages []string
	Hook     func(msg string)
}

// Log implements util.ErrorLogger.
func (l *ErrorLog) Log(err error) {
	l.Messages = append(l.Messages, err.Error())
	if l.Hook != nil {
		l.Hook(err.Error())
	}
}

// VClock implements clock.Clock on the scheduler's virtual time.
type VClock struct{}

type vtimerHandle struct{ stop func() bool }

func (h vtimerHandle) Stop() bool { return h.stop() }

// Now implements clock.Clock.
func (VClock) Now() time.Time { return vsched.Now() }

// NewContextWithTimeout is not used by the store.
func (VClock) NewContextWithTimeout(parent context.Context, timeout time.Duration) (context.Context, context.CancelFunc) {
	panic("VClock.NewContextWithTimeout not modelled")
}

// NewTimer implements clock.Clock.
func (VClock) NewTimer(d time.Duration) (clock.Timer, <-chan time.Time) {
	vsched.Yield("clock.NewTimer")
	stop, ch := vsched.NewTimer(d)
	return vtimerHandle{stop}, ch
}

// NewTicker is not used by the store.
func (VClock) NewTicker(d time.Duration) (clock.Ticker, <-chan time.Time) {
	panic("VClock.NewTicker not modelled")
}

// Store is one running instance of the assembled local store.
type Store struct {
	Geo        Geometry
	Media      *Media
	BA         blobstore.BlobAccess
	Lock       *vsync.RWMutex
	Alloc      *TrackingAllocator
	LBM        *local.OldCurrentNewLocationBlobMap
	PBL        *local.PersistentBlockList
	Syncer     *local.PeriodicSyncer
	RBF        *TrackingRBF
	Errors     *ErrorLog
	StateStore *TrackingStateStore
	KLM        local.KeyLocationMap
	// InitialBlocks is the number of blocks re-attached from persistent state.
	InitialBlocks int
	HashInit      uint64
	StorageType   string
	DataSyncs     *SyncTracker
	InitialState  *pb.PersistentState
	// Real reports that the store was assembled by configuration.NewBlobAccessFromConfiguration.
	Real bool
	opt  OpenOptions
}

type localState = pb.PersistentState

// SyncTracker wraps the DataSyncer.
type SyncTracker struct {
	Calls []SyncCall
}

var storeSeq int

// Open assembles a store over media: through the repository's own configuration code when the
// geometry is expressible as a configuration message (the default), otherwise through the
// hand-written copy of that wiring below. Syncer loops are not started (see OpenWith).
func Open(g Geometry, m *Media) *Store { return OpenWith(g, m, OpenOptions{}) }

// OpenWith is Open with control over the syncer loops.
func OpenWith(g Geometry, m *Media, opt OpenOptions) *Store {
	var s *Store
	if UseRealWiring && g.Expressible() {
		s = openReal(g, m, opt)
	} else {
		s = openHarness(g, m)
		vsched.Count("stores_assembled_by_harness_copy_of_the_wiring", 1)
		if opt.Ctx != nil && g.Persistent {
			s.startSyncers(opt.Ctx, opt.OnPutLoopExit)
		}
	}
	s.opt = opt
	return s
}

// afterCrashJudge builds TrackingAllocator.AfterCrash from the simulated state directory: every admissible
// post-crash content of the directory (metadata operations after the last directory fsync as any prefix,
// unsynced file data as a prefix) is examined.
func afterCrashJudge(m *Media, everListed func(int64) bool) func(int64) string {
	return func(off int64) string {
		if m.Dir == nil {
			return ""
		}
		var base map[string][]byte
		if m.Base != nil && m.Base.Dir != nil {
			base = m.Base.Dir.Files
		}
		for _, ds := range dirStates(base, m.Dir.Log, len(m.Dir.Log), false) {
			c, ok := ds.Files["state"]
			if !ok {
				if everListed(off) {
					return "after a crash there may be no state file at all (" + ds.Desc + "), while an earlier durable one listed the region"
				}
				continue
			}
			var st pb.PersistentState
			if err := proto.Unmarshal(c, &st); err != nil {
				if everListed(off) {
					return fmt.Sprintf("after a crash the state file may be unreadable (%d of its bytes durable; %s): it was never made durable", len(c), ds.Desc)
				}
				continue
			}
			for _, bs := range st.Blocks {
				if bs.BlockLocation.OffsetBytes == off {
					return "after a crash the state file may still be one that lists the region (" + ds.Desc + ")"
				}
			}
		}
		return ""
	}
}

// withIntegrityCache wraps base as new_blob_access.go's newCachedReadBufferFactory does (same key format
// rule, LRU, 16 entries, one virtual hour). It is applied inside the tracking decorator so that readers
// of cached (unvalidated) reads are still accounted for.
func withIntegrityCache(g Geometry, base blobstore.ReadBufferFactory) blobstore.ReadBufferFactory {
	if !g.IntegrityCache {
		return base
	}
	kf := digest.KeyWithInstance
	if !g.Hierarchical && !g.AC {
		kf = digest.KeyWithoutInstance
	}
	return blobstore.NewValidationCachingReadBufferFactory(base, digest.NewExistenceCache(VClock{}, kf, 16, time.Hour, eviction.NewLRUSet[string]()))
}

// openHarness mirrors new_blob_access.go (case Local) by hand.
func openHarness(g Geometry, m *Media) *Store {
	random.CryptoThreadSafeGenerator = m.Rand
	storeSeq++
	s := &Store{Geo: g, Media: m, Lock: &vsync.RWMutex{}, Errors: &ErrorLog{}}
	s.StorageType = "cas"
	var base blobstore.ReadBufferFactory = blobstore.CASReadBufferFactory
	if g.AC {
		base = blobstore.ACReadBufferFactory
		s.StorageType = "ac"
	}
	if g.RawReads {
		base = rawFactory{}
	}
	base = withIntegrityCache(g, base)
	s.RBF = &TrackingRBF{Base: base}

	digestKeyFormat := digest.KeyWithInstance
	if !g.Hierarchical && !g.AC {
		digestKeyFormat = digest.KeyWithoutInstance
	}

	var inner local.BlockAllocator
	dataSyncer := func() error { return nil }
	sectorSize, blockSectorCount := g.SectorSize, int64(g.SectorsPerBlock)
	if g.InMemoryBlocks {
		sectorSize = 1
		blockSectorCount = int64(g.BlockSize())
		inner = local.NewInMemoryBlockAllocator(g.BlockSize())
	} else {
		dataSyncer = m.Data.Sync
		inner = local.NewBlockDeviceBackedBlockAllocator(m.Data, s.RBF, sectorSize, blockSectorCount, g.BlockCount(), s.StorageType)
	}
	s.Alloc = NewTrackingAllocator(inner, g, m.Data)
	s.Alloc.RBF = s.RBF

	var blockList local.BlockList
	initialBlockCount := 0
	if !g.Persistent {
		blockList = local.NewVolatileBlockList(s.Alloc)
		s.HashInit = random.CryptoThreadSafeGenerator.Uint64()
	} else {
		s.StateStore = &TrackingStateStore{Base: local.NewDirectoryBackedPersistentStateStore(m.Dir)}
		st, err := s.StateStore.ReadPersistentState()
		if err != nil {
			vsched.HarnessFail("ReadPersistentState: %v", err)
		}
		s.HashInit = st.KeyLocationMapHashInitialization
		s.InitialState = st
		s.Alloc.LastWrittenState = func() *pb.PersistentState {
			if n := len(s.StateStore.Written); n > 0 {
				return s.StateStore.Written[n-1]
			}
			return s.InitialState
		}
		s.Alloc.AfterCrash = afterCrashJudge(m, s.everListed)
		s.PBL, initialBlockCount = local.NewPersistentBlockList(s.Alloc, st.OldestEpochId, st.Blocks)
		blockList = s.PBL
		s.DataSyncs = &SyncTracker{}
		s.Syncer = local.NewPeriodicSyncer(s.PBL, s.Lock, s.StateStore, VClock{}, s.Errors, g.ErrorRetry, g.MinEpochInterval, s.HashInit, dataSyncer)
	}
	s.InitialBlocks = initialBlockCount

	var gp local.BlockListGrowthPolicy
	if g.Mutable {
		gp = local.NewMutableBlockListGrowthPolicy(g.Current)
	} else {
		gp = local.NewImmutableBlockListGrowthPolicy(g.Current, g.New)
	}
	s.LBM = local.NewOldCurrentNewLocationBlobMap(blockList, gp, s.Errors, s.StorageType, int64(sectorSize)*blockSectorCount, g.Old, g.New, initialBlockCount)

	size := g.IndexSlots
	var lra local.LocationRecordArray
	if g.IndexOnDevice {
		size = len(m.Index.Image) / local.BlockDeviceBackedLocationRecordSize
		lra = local.NewBlockDeviceBackedLocationRecordArray(m.Index, s.LBM)
	} else {
		lra = local.NewInMemoryLocationRecordArray(size, s.LBM)
	}
	for size > 3 && !primes.IsPrime(size) {
		size--
	}
	s.KLM = local.NewHashingKeyLocationMap(lra, size, s.HashInit, g.GetAttempts, g.PutAttempts, s.StorageType)
	if g.Hierarchical {
		s.BA = local.NewHierarchicalCASBlobAccess(s.KLM, s.LBM, s.Lock, nil)
	} else {
		s.BA = local.NewFlatBlobAccess(s.KLM, s.LBM, digestKeyFormat, s.Lock, s.StorageType, nil)
	}
	return s
}

// StartSyncers is kept for harnesses that open first and start later: only valid for the hand wiring.
func (s *Store) StartSyncers(ctx context.Context, onPutLoopExit func()) {
	if s.Real {
		vsched.HarnessFail("StartSyncers on a store assembled by the real wiring: use OpenWith")
	}
	s.startSyncers(ctx, onPutLoopExit)
}

func (s *Store) startSyncers(ctx context.Context, onPutLoopExit func()) {
	vsched.GoNamed("syncer-release", true, func() {
		for {
			s.Syncer.ProcessBlockRelease()
		}
	})
	vsched.GoNamed("syncer-put", true, func() {
		for s.Syncer.ProcessBlockPut(ctx) {
		}
		if onPutLoopExit != nil {
			onPutLoopExit()
		}
	})
}

// ---- tracking persistent state store ----------------------------------------------------------

// TrackingStateStore records the state written and when.
type TrackingStateStore struct {
	FirstRead *pb.PersistentState
	Base      local.PersistentStateStore
	Written   []*pb.PersistentState // states whose write returned nil
	Starts    []time.Time
	Ends      []time.Time
	Failed    int
}

// ReadPersistentState forwards.
func (t *TrackingStateStore) ReadPersistentState() (*pb.PersistentState, error) {
	st, err := t.Base.ReadPersistentState()
	if err == nil && t.FirstRead == nil {
		t.FirstRead = st
	}
	return st, err
}

// WritePersistentState forwards and records.
func (t *TrackingStateStore) WritePersistentState(st *pb.PersistentState) error {
	t.Starts = append(t.Starts, vsched.Now())
	err := t.Base.WritePersistentState(st)
	if err != nil {
		t.Failed++
		return err
	}
	t.Ends = append(t.Ends, vsched.Now())
	t.Written = append(t.Written, st)
	return nil
}

// ---- read buffer factories -------------------------------------------------------------------------

type rawFactory struct{}

func (rawFactory) NewBufferFromByteSlice(d digest.Digest, data []byte, cb buffer.DataIntegrityCallback) buffer.Buffer {
	return buffer.NewValidatedBufferFromByteSlice(data)
}

func (rawFactory) NewBufferFromReader(d digest.Digest, r io.ReadCloser, cb buffer.DataIntegrityCallback) buffer.Buffer {
	panic("rawFactory.NewBufferFromReader not used")
}

func (rawFactory) NewBufferFromReaderAt(d digest.Digest, r buffer.ReadAtCloser, sizeBytes int64, cb buffer.DataIntegrityCallback) buffer.Buffer {
	return buffer.NewValidatedBufferFromReaderAt(r, sizeBytes)
}

// TrackingRBF wraps a ReadBufferFactory: counts open/closed readers and integrity verdicts.
type TrackingRBF struct {
	Base           blobstore.ReadBufferFactory
	Opened         int
	Closed         int
	DoubleClosed   int
	ReadAfterClose int
	Invalid        int // integrity callbacks with dataIsValid=false
	Valid          int
	OpenReaders    map[int]string
	seq            int
	// current is the block whose Get is in progress (set by trackedBlock.Get) so that the
	// reader can be attributed to a region.
	current *trackedBlock
}

type trackedReader struct {
	buffer.ReadAtCloser
	f      *TrackingRBF
	id     int
	closed bool
	block  *trackedBlock
}

// ReadAt flags reads through a reader that was already closed: the block reference it pinned is gone, so
// the region may have been handed out again.
func (t *trackedReader) ReadAt(p []byte, off int64) (int, error) {
	if t.closed {
		t.f.ReadAfterClose++
	}
	return t.ReadAtCloser.ReadAt(p, off)
}

func (t *trackedReader) Close() error {
	if t.closed {
		t.f.DoubleClosed++
		return nil
	}
	t.closed = true
	t.f.Closed++
	delete(t.f.OpenReaders, t.id)
	err := t.ReadAtCloser.Close()
	if b := t.block; b != nil && b.region != nil && b.region.Incarnation == b.inc {
		b.region.Readers--
		b.settle()
	}
	return err
}

func (f *TrackingRBF) cb(cb buffer.DataIntegrityCallback) buffer.DataIntegrityCallback {
	return func(valid bool) {
		if valid {
			f.Valid++
		} else {
			f.Invalid++
		}
		cb(valid)
	}
}

// NewBufferFromByteSlice forwards.
func (f *TrackingRBF) NewBufferFromByteSlice(d digest.Digest, data []byte, cb buffer.DataIntegrityCallback) buffer.Buffer {
	return f.Base.NewBufferFromByteSlice(d, data, f.cb(cb))
}

// NewBufferFromReader forwards.
func (f *TrackingRBF) NewBufferFromReader(d digest.Digest, r io.ReadCloser, cb buffer.DataIntegrityCallback) buffer.Buffer {
	return f.Base.NewBufferFromReader(d, r, f.cb(cb))
}

// NewBufferFromReaderAt wraps the reader to count open/close.
func (f *TrackingRBF) NewBufferFromReaderAt(d digest.Digest, r buffer.ReadAtCloser, sizeBytes int64, cb buffer.DataIntegrityCallback) buffer.Buffer {
	f.seq++
	f.Opened++
	if f.OpenReaders == nil {
		f.OpenReaders = map[int]string{}
	}
	f.OpenReaders[f.seq] = d.String()
	tr := &trackedReader{ReadAtCloser: r, f: f, id: f.seq, block: f.current}
	if b := f.current; b != nil && b.region != nil {
		if b.region.Incarnation != b.inc {
			b.a.violate("reader opened on region at offset %d through a block of incarnation %d, but the region is at incarnation %d", b.region.Offset, b.inc, b.region.Incarnation)
		} else {
			b.region.Readers++
		}
	}
	return f.Base.NewBufferFromReaderAt(d, tr, sizeBytes, f.cb(cb))
}

// ---- tracking allocator ----------------------------------------------------------------------------

// Region is the monitor's view of one device region (block-sized).
type Region struct {
	Offset      int64
	Incarnation int  // number of times handed out
	Live        bool // handed out and not yet back in the free list (by the monitor's accounting)
	Readers     int  // open Get buffers of the current incarnation
	Writers     int  // in-flight writers of the current incarnation
	InList      bool // Release() by the block list not yet called
	Seq         int  // position of the current incarnation in the order in which blocks were handed out
}

// TrackingAllocator decorates the real BlockAllocator with a region ownership monitor.
type TrackingAllocator struct {
	Base             local.BlockAllocator
	Geo              Geometry
	Dev              *SimBlockDevice
	Regions          map[int64]*Region
	NewBlocks        int // successful NewBlock calls
	NewBlockFailures int
	// FailNewBlock is a fault budget: while > 0 each NewBlock may fail (choice point).
	FailNewBlock int
	// FailNext makes the next NewBlock fail (deterministically: an operation of a sequential history).
	FailNext bool
	Violations   []string
	Reattached   int         // successful NewBlockAtLocation calls (restart)
	seq          int
	Releases     int         // Block.Release calls made by the block list (volatile: pops)
	ReleaseTimes []time.Time // virtual time of each such call
	// LastWrittenState returns the most recent durably written state (persistent only).
	LastWrittenState func() *pb.PersistentState
	// AfterCrash, when set, answers from the state directory's own durability model: "" if in every
	// admissible post-crash content of the directory the state file is readable and does not list the
	// region; otherwise what could be found instead.
	AfterCrash func(offset int64) string
	RBF        *TrackingRBF
	blocks     []*trackedBlock
}

// NewTrackingAllocator wraps base.
func NewTrackingAllocator(base local.BlockAllocator, g Geometry, dev *SimBlockDevice) *TrackingAllocator {
	return &TrackingAllocator{Base: base, Geo: g, Dev: dev, Regions: map[int64]*Region{}}
}

type trackedBlock struct {
	local.Block
	a        *TrackingAllocator
	region   *Region
	inc      int
	released bool
	readers  int
	writers  int
}

func (a *TrackingAllocator) violate(format string, args ...any) {
	a.Violations = append(a.Violations, fmt.Sprintf(format, args...))
}

func (a *TrackingAllocator) adopt(b local.Block, loc *pb.BlockLocation) local.Block {
	if loc == nil {
		// in-memory allocator: no regions
		tb := &trackedBlock{Block: b, a: a}
		a.blocks = append(a.blocks, tb)
		return tb
	}
	r := a.Regions[loc.OffsetBytes]
	if r == nil {
		r = &Region{Offset: loc.OffsetBytes}
		a.Regions[loc.OffsetBytes] = r
	}
	if r.Live {
		a.violate("region at offset %d handed out again while its previous incarnation %d is still live (readers=%d writers=%d inList=%v)", r.Offset, r.Incarnation, r.Readers, r.Writers, r.InList)
	}
	if a.LastWrittenState != nil {
		if st := a.LastWrittenState(); st != nil {
			for _, bs := range st.Blocks {
				if bs.BlockLocation.OffsetBytes == loc.OffsetBytes {
					a.violate("region at offset %d handed out for new data while the last durably written state file still lists it", r.Offset)
				}
			}
		}
	}
	if a.AfterCrash != nil && a.LastWrittenState != nil {
		if why := a.AfterCrash(loc.OffsetBytes); why != "" {
			a.violate("region at offset %d handed out for new data although no state file without it is durable: %s", r.Offset, why)
		}
	}
	r.Incarnation++
	a.seq++
	r.Live, r.InList, r.Readers, r.Writers, r.Seq = true, true, 0, 0, a.seq
	tb := &trackedBlock{Block: b, a: a, region: r, inc: r.Incarnation}
	a.blocks = append(a.blocks, tb)
	return tb
}

// NewBlock implements BlockAllocator.
func (a *TrackingAllocator) NewBlock() (local.Block, *pb.BlockLocation, error) {
	if a.FailNext {
		a.FailNext = false
		a.NewBlockFailures++
		return nil, nil, status.Error(codes.Unavailable, "injected allocation failure")
	}
	if a.FailNewBlock > 0 && vsched.Choose("fault", 2) == 1 {
		a.FailNewBlock--
		a.NewBlockFailures++
		return nil, nil, status.Error(codes.Unavailable, "injected allocation failure")
	}
	b, loc, err := a.Base.NewBlock()
	if err != nil {
		a.NewBlockFailures++
		return nil, nil, err
	}
	a.NewBlocks++
	return a.adopt(b, loc), loc, nil
}

// NewBlockAtLocation implements BlockAllocator (restart path: re-attaching is not "new data").
func (a *TrackingAllocator) NewBlockAtLocation(loc *pb.BlockLocation, writeOffsetBytes int64) (local.Block, bool) {
	b, ok := a.Base.NewBlockAtLocation(loc, writeOffsetBytes)
	if !ok {
		return nil, false
	}
	a.Reattached++
	saved := a.LastWrittenState
	a.LastWrittenState = nil
	tb := a.adopt(b, loc)
	a.LastWrittenState = saved
	return tb, true
}

// FreeRegions counts regions that are not live according to the monitor.
func (a *TrackingAllocator) FreeRegions() int {
	live := 0
	for _, r := range a.Regions {
		if r.Live {
			live++
		}
	}
	return a.Geo.BlockCount() - live
}

// PoppedNotReleased lists regions that the block list can no longer own yet never handed back, judged without
// consulting the list's own bookkeeping: the list is a FIFO (blocks leave it in the order in which the allocator
// handed them out), so every block handed out BEFORE the oldest block that the given state file lists has been
// popped. To be called when nothing is pending (release wake-up not ready): by then each popped block must have
// been released. Returns nil when the state lists no block that is currently live.
func (a *TrackingAllocator) PoppedNotReleased(st *pb.PersistentState) []string {
	if st == nil {
		return nil
	}
	oldest := -1
	for _, bs := range st.Blocks {
		if r := a.Regions[bs.BlockLocation.OffsetBytes]; r != nil && r.Live && (oldest < 0 || r.Seq < oldest) {
			oldest = r.Seq
		}
	}
	if oldest < 0 {
		return nil
	}
	var out []string
	for _, r := range a.Regions {
		if r.Live && r.InList && r.Seq < oldest {
			out = append(out, fmt.Sprintf("region at offset %d (handed out as number %d, before the oldest block of the current state file, number %d) left the block list but was never released", r.Offset, r.Seq, oldest))
		}
	}
	sort.Strings(out)
	return out
}

// LiveInList counts regions still owned by the block list.
func (a *TrackingAllocator) LiveInList() int {
	n := 0
	for _, r := range a.Regions {
		if r.Live && r.InList {
			n++
		}
	}
	return n
}

// Describe renders the region table.
func (a *TrackingAllocator) Describe() string {
	s := ""
	for off := int64(0); off < int64(a.Geo.BlockCount()*a.Geo.BlockSize()); off += int64(a.Geo.BlockSize()) {
		r := a.Regions[off]
		if r == nil {
			s += fmt.Sprintf("[%d:never]", off)
			continue
		}
		s += fmt.Sprintf("[%d:inc%d live=%v inList=%v r=%d w=%d]", off, r.Incarnation, r.Live, r.InList, r.Readers, r.Writers)
	}
	return s
}

func (b *trackedBlock) settle() {
	if b.region == nil {
		return
	}
	r := b.region
	if r.Incarnation != b.inc {
		return
	}
	if !r.InList && r.Readers == 0 && r.Writers == 0 {
		r.Live = false
	}
}

type trackedReadAtCloser struct {
	buffer.ReadAtCloser
	b *trackedBlock
}

// Get implements Block: the returned buffer's lifetime is observed through the TrackingRBF close count;
// here we only count readers per incarnation by wrapping the integrity callback-free path: the real
// block calls readBufferFactory.NewBufferFromReaderAt with a reader whose Close releases the block.
func (b *trackedBlock) Get(d digest.Digest, off, size int64, cb buffer.DataIntegrityCallback) buffer.Buffer {
	if b.released && b.region != nil && b.region.Incarnation != b.inc {
		b.a.violate("Get on a block whose region (offset %d) has been handed out again", b.region.Offset)
	}
	if b.a.RBF != nil {
		b.a.RBF.current = b
		defer func() { b.a.RBF.current = nil }()
	}
	return b.Block.Get(d, off, size, cb)
}

// Put implements Block.
func (b *trackedBlock) Put(size int64) local.BlockPutWriter {
	w := b.Block.Put(size)
	if b.region != nil {
		b.region.Writers++
	}
	b.writers++
	return func(buf buffer.Buffer) local.BlockPutFinalizer {
		fin := w(buf)
		// the real writer has dropped its reference by now
		b.writers--
		if b.region != nil && b.region.Incarnation == b.inc {
			b.region.Writers--
			b.settle()
		}
		return fin
	}
}

// Release implements Block (called by the block list when the block leaves the list / state).
func (b *trackedBlock) Release() {
	if b.released {
		b.a.violate("Release called twice on the same block (region offset %v)", b.regionOffset())
	}
	b.released = true
	if b.region != nil && b.a.LastWrittenState != nil {
		if st := b.a.LastWrittenState(); st != nil {
			for _, bs := range st.Blocks {
				if bs.BlockLocation.OffsetBytes == b.region.Offset {
					b.a.violate("region at offset %d released to the allocator while the last durably written state file still lists it", b.region.Offset)
				}
			}
		}
	}
	if b.region != nil && b.a.AfterCrash != nil && b.a.LastWrittenState != nil {
		if why := b.a.AfterCrash(b.region.Offset); why != "" {
			b.a.violate("region at offset %d released to the allocator although no state file without it is durable: %s", b.region.Offset, why)
		}
	}
	b.a.Releases++
	b.a.ReleaseTimes = append(b.a.ReleaseTimes, vsched.Now())
	b.Block.Release()
	if b.region != nil && b.region.Incarnation == b.inc {
		b.region.InList = false
		b.settle()
	}
}

func (b *trackedBlock) regionOffset() int64 {
	if b.region == nil {
		return -1
	}
	return b.region.Offset
}
