//go:build verif

// Package lstore assembles the real local store (allocator + block list + block
// map + index + flat/hierarchical front end + syncer + state store) over
// harness-owned simulated media, exactly as
// pkg/blobstore/configuration/new_blob_access.go does, and provides the
// monitors the oracles read.
package lstore

import (
	"fmt"
	"io"
	"os"
	"sort"
	"strings"
	"syscall"
	"time"

	"github.com/buildbarn/bb-storage/pkg/filesystem"
	"github.com/buildbarn/bb-storage/pkg/filesystem/path"
	"github.com/buildbarn/bb-storage/pkg/verifshim/vsched"
	"google.golang.org/grpc/codes"
	"google.golang.org/grpc/status"
)

// DevOp is one logged block-device operation.
type DevOp struct {
	Kind byte // 'W' write, 'S' sync call started, 's' sync returned successfully, 'f' sync failed, 'R' restart marker
	Off  int64
	Data []byte
}

// JEntry is one entry of the global I/O journal shared by all media of a store: which
// device ('D' data, 'I' index, 'F' state directory) and the index into that device's own log.
type JEntry struct {
	Dev byte
	Idx int
}

// SimBlockDevice is an in-memory block device with an operation log,
// scheduling gates, fault injection and corruption.
type SimBlockDevice struct {
	Name       string
	Image      []byte
	SectorSize int
	Gates      bool // every ReadAt/WriteAt/Sync is a scheduling point
	Aligned    bool // writes must be sector aligned and sector sized (data device)
	Log        []DevOp
	Logging    bool

	// Fault budgets (choice points while > 0).
	WriteFaults int
	SyncFaults  int
	ReadFaults  int

	Reads, Writes, Syncs int
	Misaligned           []string
	OnWrite              func(off int64, n int) // monitor hook, called before the write takes effect
	OnRead               func(off int64, n int)
	SyncCalls            []SyncCall
	Journal              *[]JEntry
	JKind                byte
}

func (d *SimBlockDevice) logOp(o DevOp) {
	if !d.Logging {
		return
	}
	d.Log = append(d.Log, o)
	if d.Journal != nil {
		*d.Journal = append(*d.Journal, JEntry{Dev: d.JKind, Idx: len(d.Log) - 1})
	}
}

// SyncCall records virtual start/end times of Sync invocations.
type SyncCall struct {
	Start, End time.Time
	Failed     bool
	// WritesBefore is the number of logged writes issued before the call started.
	WritesBefore int
}

// NewDevice creates a zeroed device.
func NewDevice(name string, size, sectorSize int, gates, aligned bool) *SimBlockDevice {
	return &SimBlockDevice{Name: name, Image: make([]byte, size), SectorSize: sectorSize, Gates: gates, Aligned: aligned, Logging: true}
}

var errInjectedIO = status.Error(codes.Internal, "injected I/O failure")

// ReadAt implements io.ReaderAt.
func (d *SimBlockDevice) ReadAt(p []byte, off int64) (int, error) {
	if d.Gates {
		vsched.Yield("dev.ReadAt")
	}
	d.Reads++
	if d.ReadFaults > 0 && vsched.Choose("fault", 2) == 1 {
		d.ReadFaults--
		return 0, errInjectedIO
	}
	if d.OnRead != nil {
		d.OnRead(off, len(p))
	}
	if off < 0 || off > int64(len(d.Image)) {
		return 0, io.EOF
	}
	n := copy(p, d.Image[off:])
	if n < len(p) {
		return n, io.EOF
	}
	return n, nil
}

// WriteAt implements io.WriterAt.
func (d *SimBlockDevice) WriteAt(p []byte, off int64) (int, error) {
	if d.Gates {
		vsched.Yield("dev.WriteAt")
	}
	d.Writes++
	if d.Aligned && (off%int64(d.SectorSize) != 0 || len(p)%d.SectorSize != 0 || len(p) == 0) {
		d.Misaligned = append(d.Misaligned, fmt.Sprintf("WriteAt(off=%d,len=%d) sector=%d", off, len(p), d.SectorSize))
	}
	if d.WriteFaults > 0 && vsched.Choose("fault", 2) == 1 {
		d.WriteFaults--
		return 0, errInjectedIO
	}
	if off < 0 || off+int64(len(p)) > int64(len(d.Image)) {
		return 0, status.Errorf(codes.Internal, "write beyond end of device %s: off=%d len=%d size=%d", d.Name, off, len(p), len(d.Image))
	}
	if d.OnWrite != nil {
		d.OnWrite(off, len(p))
	}
	copy(d.Image[off:], p)
	d.logOp(DevOp{Kind: 'W', Off: off, Data: append([]byte(nil), p...)})
	return len(p), nil
}

// Sync implements BlockDevice.Sync (two gates: writes of other threads may land while it runs).
func (d *SimBlockDevice) Sync() error {
	if d.Gates {
		vsched.Yield("dev.Sync.start")
	}
	d.Syncs++
	sc := SyncCall{Start: vsched.Now()}
	for _, o := range d.Log {
		if o.Kind == 'W' {
			sc.WritesBefore++
		}
	}
	d.logOp(DevOp{Kind: 'S'})
	if d.SyncFaults > 0 && vsched.Choose("fault", 2) == 1 {
		d.SyncFaults--
		sc.End, sc.Failed = vsched.Now(), true
		d.SyncCalls = append(d.SyncCalls, sc)
		d.logOp(DevOp{Kind: 'f'})
		return errInjectedIO
	}
	if d.Gates {
		vsched.Yield("dev.Sync.end")
	}
	sc.End = vsched.Now()
	d.SyncCalls = append(d.SyncCalls, sc)
	d.logOp(DevOp{Kind: 's'})
	return nil
}

// Close implements BlockDevice.Close.
func (d *SimBlockDevice) Close() error { return nil }

// Clone copies the image (not the log).
func (d *SimBlockDevice) Clone() *SimBlockDevice {
	c := *d
	c.Image = append([]byte(nil), d.Image...)
	c.Log = nil
	c.SyncCalls = nil
	c.Misaligned = nil
	c.OnWrite, c.OnRead = nil, nil
	c.WriteFaults, c.SyncFaults, c.ReadFaults = 0, 0, 0
	c.Journal = nil
	return &c
}

// ---- state directory --------------------------------------------------------------------

// DirOp is one logged directory/file operation.
type DirOp struct {
	Kind string // remove, create, write, fsync, close, rename, dirsync
	Name string
	To   string
	Data []byte
}

// SimDirectory implements the subset of filesystem.Directory that
// directoryBackedPersistentStateStore uses; every other method panics.
type SimDirectory struct {
	filesystem.Directory // nil: any method not overridden below panics

	Files map[string][]byte
	Log   []DirOp
	Gates bool
	// Fault budget: any of the mutating operations may fail while > 0.
	Faults int
	// Slow, when set, is called before every mutating operation (harness hook: a slow state write).
	Slow    func(kind string)
	Journal *[]JEntry
}

func (d *SimDirectory) logOp(o DirOp) {
	d.Log = append(d.Log, o)
	if d.Journal != nil {
		*d.Journal = append(*d.Journal, JEntry{Dev: 'F', Idx: len(d.Log) - 1})
	}
}

// NewDirectory creates an empty state directory.
func NewDirectory(gates bool) *SimDirectory {
	return &SimDirectory{Files: map[string][]byte{}, Gates: gates}
}

func (d *SimDirectory) gate(kind string) error {
	if d.Slow != nil {
		d.Slow(kind)
	}
	if d.Gates {
		vsched.Yield("dir." + kind)
	}
	if d.Faults > 0 && vsched.Choose("fault", 2) == 1 {
		d.Faults--
		return &os.PathError{Op: kind, Path: "state", Err: syscall.EIO}
	}
	return nil
}

// Remove implements Directory.Remove.
func (d *SimDirectory) Remove(name path.Component) error {
	if err := d.gate("remove"); err != nil {
		return err
	}
	if _, ok := d.Files[name.String()]; !ok {
		return &os.PathError{Op: "remove", Path: name.String(), Err: syscall.ENOENT}
	}
	delete(d.Files, name.String())
	d.logOp(DirOp{Kind: "remove", Name: name.String()})
	return nil
}

// OpenAppend implements Directory.OpenAppend (exclusive creation only).
func (d *SimDirectory) OpenAppend(name path.Component, mode filesystem.CreationMode) (filesystem.FileAppender, error) {
	if err := d.gate("create"); err != nil {
		return nil, err
	}
	if _, ok := d.Files[name.String()]; ok {
		return nil, &os.PathError{Op: "open", Path: name.String(), Err: syscall.EEXIST}
	}
	d.Files[name.String()] = []byte{}
	d.logOp(DirOp{Kind: "create", Name: name.String()})
	return &simFile{d: d, name: name.String()}, nil
}

// OpenRead implements Directory.OpenRead.
func (d *SimDirectory) OpenRead(name path.Component) (filesystem.FileReader, error) {
	if d.Gates {
		vsched.Yield("dir.openread")
	}
	b, ok := d.Files[name.String()]
	if !ok {
		return nil, &os.PathError{Op: "open", Path: name.String(), Err: syscall.ENOENT}
	}
	return &simFileReader{data: append([]byte(nil), b...)}, nil
}

// Rename implements Directory.Rename within the same directory.
func (d *SimDirectory) Rename(oldName path.Component, newDirectory filesystem.Directory, newName path.Component) error {
	if err := d.gate("rename"); err != nil {
		return err
	}
	if nd, ok := newDirectory.(*SimDirectory); !ok || nd != d {
		panic("SimDirectory: rename across directories")
	}
	b, ok := d.Files[oldName.String()]
	if !ok {
		return &os.PathError{Op: "rename", Path: oldName.String(), Err: syscall.ENOENT}
	}
	delete(d.Files, oldName.String())
	d.Files[newName.String()] = b
	d.logOp(DirOp{Kind: "rename", Name: oldName.String(), To: newName.String()})
	return nil
}

// Close implements io.Closer (the real wiring receives a DirectoryCloser).
func (d *SimDirectory) Close() error { return nil }

// Sync implements Directory.Sync.
func (d *SimDirectory) Sync() error {
	if err := d.gate("dirsync"); err != nil {
		return err
	}
	d.logOp(DirOp{Kind: "dirsync"})
	return nil
}

type simFile struct {
	d      *SimDirectory
	name   string
	closed bool
}

func (f *simFile) Write(p []byte) (int, error) {
	if err := f.d.gate("write"); err != nil {
		return 0, err
	}
	f.d.Files[f.name] = append(f.d.Files[f.name], p...)
	f.d.logOp(DirOp{Kind: "write", Name: f.name, Data: append([]byte(nil), p...)})
	return len(p), nil
}

func (f *simFile) Sync() error {
	if err := f.d.gate("fsync"); err != nil {
		return err
	}
	f.d.logOp(DirOp{Kind: "fsync", Name: f.name})
	return nil
}

func (f *simFile) Close() error {
	f.closed = true
	f.d.logOp(DirOp{Kind: "close", Name: f.name})
	return nil
}

type simFileReader struct{ data []byte }

func (r *simFileReader) ReadAt(p []byte, off int64) (int, error) {
	if off >= int64(len(r.data)) {
		return 0, io.EOF
	}
	n := copy(p, r.data[off:])
	if n < len(p) {
		return n, io.EOF
	}
	return n, nil
}
func (r *simFileReader) Close() error { return nil }
func (r *simFileReader) GetNextRegionOffset(offset int64, regionType filesystem.RegionType) (int64, error) {
	panic("not used")
}
func (r *simFileReader) Len() (int64, error) { return int64(len(r.data)), nil }

// Clone copies the directory content (not the log).
func (d *SimDirectory) Clone() *SimDirectory {
	c := NewDirectory(d.Gates)
	for k, v := range d.Files {
		c.Files[k] = append([]byte(nil), v...)
	}
	return c
}

// Describe renders the file list.
func (d *SimDirectory) Describe() string {
	var ks []string
	for k, v := range d.Files {
		ks = append(ks, fmt.Sprintf("%s(%d)", k, len(v)))
	}
	sort.Strings(ks)
	return strings.Join(ks, ",")
}

// ---- deterministic randomness -------------------------------------------------------------

// DetRand is a deterministic, never-repeating replacement for random.CryptoThreadSafeGenerator.
type DetRand struct{ Counter uint64 }

func (r *DetRand) next() uint64 {
	r.Counter++
	// bijective mixing of a counter: values never repeat
	x := r.Counter * 0x9E3779B97F4A7C15
	x ^= x >> 31
	return x
}

func (r *DetRand) Float64() float64                   { return float64(r.next()>>11) / (1 << 53) }
func (r *DetRand) Int64N(n int64) int64               { return int64(r.next() % uint64(n)) }
func (r *DetRand) IntN(n int) int                     { return int(r.next() % uint64(n)) }
func (r *DetRand) Shuffle(n int, swap func(i, j int)) {}
func (r *DetRand) Uint32() uint32                     { return uint32(r.next()) }
func (r *DetRand) Uint64() uint64                     { return r.next() }
func (r *DetRand) IsThreadSafe()                      {}
func (r *DetRand) Read(p []byte) (int, error) {
	for i := range p {
		p[i] = byte(r.next())
	}
	return len(p), nil
}
