//go:build verif

package lstore

import (
	"time"

	"github.com/buildbarn/bb-storage/pkg/blobstore"
	"github.com/buildbarn/bb-storage/pkg/blobstore/configuration"
	"github.com/buildbarn/bb-storage/pkg/blobstore/replication"
	"github.com/buildbarn/bb-storage/pkg/clock"
	"github.com/buildbarn/bb-storage/pkg/digest"
	pb "github.com/buildbarn/bb-storage/pkg/proto/configuration/blobstore"
	digestpb "github.com/buildbarn/bb-storage/pkg/proto/configuration/digest"
	evictionpb "github.com/buildbarn/bb-storage/pkg/proto/configuration/eviction"
	"google.golang.org/protobuf/types/known/durationpb"
	"google.golang.org/protobuf/types/known/emptypb"
)

// ReplicatorConfig returns the configuration message of a replicator strategy: "local", "noop", "dedup"
// (deduplicating over local), "limit"/"limit2" (concurrency limiting over local, 1 or 2 copies), "queued" (queued
// over local with an LRU existence cache of cacheSize entries kept for cacheDuration).
func ReplicatorConfig(kind string, cacheSize int, cacheDuration time.Duration) *pb.BlobReplicatorConfiguration {
	local := &pb.BlobReplicatorConfiguration{Mode: &pb.BlobReplicatorConfiguration_Local{Local: &emptypb.Empty{}}}
	switch kind {
	case "noop":
		return &pb.BlobReplicatorConfiguration{Mode: &pb.BlobReplicatorConfiguration_Noop{Noop: &emptypb.Empty{}}}
	case "dedup":
		return &pb.BlobReplicatorConfiguration{Mode: &pb.BlobReplicatorConfiguration_Deduplicating{Deduplicating: local}}
	case "limit", "limit2":
		n := int64(1)
		if kind == "limit2" {
			n = 2
		}
		return &pb.BlobReplicatorConfiguration{Mode: &pb.BlobReplicatorConfiguration_ConcurrencyLimiting{ConcurrencyLimiting: &pb.ConcurrencyLimitingBlobReplicatorConfiguration{Base: local, MaximumConcurrency: n}}}
	case "queued":
		return &pb.BlobReplicatorConfiguration{Mode: &pb.BlobReplicatorConfiguration_Queued{Queued: &pb.QueuedBlobReplicatorConfiguration{Base: local, ExistenceCache: &digestpb.ExistenceCacheConfiguration{
			CacheSize: int64(cacheSize), CacheDuration: durationpb.New(cacheDuration), CacheReplacementPolicy: evictionpb.CacheReplacementPolicy_LEAST_RECENTLY_USED}}}}
	}
	return local
}

// ConfiguredReplicator builds the replicator through the repository's own
// configuration.NewBlobReplicatorFromConfiguration (CAS replicator creator), so that the wiring of the strategies
// (which backend is the source, which the sink, which key format and limits are passed on) is part of what is
// checked. The process-wide clock is the virtual one.
func ConfiguredReplicator(kind string, source, sink blobstore.BlobAccess, kf digest.KeyFormat, cacheSize int, cacheDuration time.Duration) (replication.BlobReplicator, error) {
	clock.SystemClock = VClock{}
	return configuration.NewBlobReplicatorFromConfiguration(nil, ReplicatorConfig(kind, cacheSize, cacheDuration), source,
		configuration.BlobAccessInfo{BlobAccess: sink, DigestKeyFormat: kf}, configuration.NewCASBlobReplicatorCreator(nil))
}
