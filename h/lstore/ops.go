//go:build verif

package lstore

import (
	"bytes"
	"context"
	"fmt"
	"io"
	"sort"
	"strings"

	remoteexecution "github.com/bazelbuild/remote-apis/build/bazel/remote/execution/v2"
	"github.com/buildbarn/bb-storage/pkg/blobstore/buffer"
	"github.com/buildbarn/bb-storage/pkg/blobstore/local"
	"github.com/buildbarn/bb-storage/pkg/blobstore/slicing"
	"github.com/buildbarn/bb-storage/pkg/digest"
	"github.com/buildbarn/bb-storage/pkg/verifshim/vsched"
	"github.com/buildbarn/bb-storage/pkg/verifshim/vsync"
	"google.golang.org/grpc/codes"
	"google.golang.org/grpc/status"
	"google.golang.org/protobuf/proto"

	"verifh/sim"
)

// Obj is one object of a universe.
type Obj struct {
	Name    string
	Digest  digest.Digest
	Content []byte
}

// CASObj builds a CAS object (digest determined by content).
func CASObj(name, instance string, content []byte) Obj {
	return Obj{Name: name, Digest: sim.SHA256Digest(instance, content), Content: content}
}

// ACValue builds a marshalled ActionResult of a chosen size class.
func ACValue(exit int32, pad int) []byte {
	m := &remoteexecution.ActionResult{ExitCode: exit}
	if pad >= 0 {
		m.StdoutRaw = bytes.Repeat([]byte{'x'}, pad)
	}
	b, err := proto.Marshal(m)
	if err != nil {
		panic(err)
	}
	return b
}

// ACKey builds an action digest (any hash; the AC does not validate content against it).
func ACKey(instance string, n int) digest.Digest {
	return sim.SHA256Digest(instance, []byte(fmt.Sprintf("action-%d", n)))
}

// ErrSource is the error injected into upload sources.
var ErrSource = status.Error(codes.Aborted, "injected upload source failure")

// PutSpec describes how an upload delivers its data.
type PutSpec struct {
	Chunks   [][]byte // delivered chunks (concatenation may differ from the object's content to provoke mismatches)
	FinalErr error    // instead of EOF
	Gate     bool     // every source read is a scheduling point
	// CloneSibling != 0: the store receives one half of a stream clone of the upload buffer (as a mirroring or
	// replicating front end hands it out); the other half is released (1) or consumed (2) by a thread of its own.
	CloneSibling int
}

// Put uploads through the store with a reader-backed CAS buffer (or proto buffer for AC). It returns the error and the source.
func (s *Store) Put(d digest.Digest, spec PutSpec) (error, *sim.Source) {
	src := sim.NewSource(sim.Script{Chunks: spec.Chunks, FinalErr: spec.FinalErr})
	if spec.Gate {
		src.Gate = func() { vsched.Yield("upload.Read") }
	}
	var b buffer.Buffer
	if s.Geo.AC {
		b = buffer.NewProtoBufferFromReader(&remoteexecution.ActionResult{}, sim.ReaderView{S: src}, buffer.UserProvided)
	} else {
		b = buffer.NewCASBufferFromReader(d, sim.ReaderView{S: src}, buffer.UserProvided)
	}
	if spec.CloneSibling != 0 {
		b1, b2 := b.CloneStream()
		var wg vsync.WaitGroup
		wg.Add(1)
		vsched.GoNamed("upload-sibling", false, func() {
			defer wg.Done()
			if spec.CloneSibling == 1 {
				b2.Discard()
			} else {
				b2.IntoWriter(io.Discard)
			}
		})
		err := s.BA.Put(context.Background(), d, b1)
		wg.Wait()
		return err, src
	}
	return s.BA.Put(context.Background(), d, b), src
}

// PutOK uploads content in one chunk.
func (s *Store) PutOK(d digest.Digest, content []byte) error {
	err, _ := s.Put(d, PutSpec{Chunks: [][]byte{content}})
	return err
}

// Get reads an object completely.
func (s *Store) Get(d digest.Digest) ([]byte, error) {
	return s.BA.Get(context.Background(), d).ToByteSlice(1 << 20)
}

// GetChunked reads an object through a chunk reader (each source read is a device gate anyway).
func (s *Store) GetChunked(d digest.Digest, chunk int) ([]byte, error) {
	r := s.BA.Get(context.Background(), d).ToChunkReader(0, chunk)
	defer r.Close()
	var out []byte
	for {
		c, err := r.Read()
		if err == io.EOF {
			return out, nil
		}
		if err != nil {
			return out, err
		}
		out = append(out, c...)
	}
}

// FindMissing returns the sorted names of missing digests.
func (s *Store) FindMissing(ds ...digest.Digest) (map[string]bool, error) {
	m, err := s.BA.FindMissing(context.Background(), sim.SetOf(ds...))
	if err != nil {
		return nil, err
	}
	out := map[string]bool{}
	for _, d := range m.Items() {
		out[d.String()] = true
	}
	return out, nil
}

// FixedSlicer slices a parent into fixed (offset,size) pieces with precomputed digests.
type FixedSlicer struct {
	Parent []byte
	Pieces []slicing.BlobSlice
}

// NewFixedSlicer cuts parent content at the given boundaries.
func NewFixedSlicer(instance string, parent []byte, cuts ...int) *FixedSlicer {
	fs := &FixedSlicer{Parent: parent}
	prev := 0
	cuts = append(cuts, len(parent))
	for _, c := range cuts {
		piece := parent[prev:c]
		fs.Pieces = append(fs.Pieces, slicing.BlobSlice{Digest: sim.SHA256Digest(instance, piece), OffsetBytes: int64(prev), SizeBytes: int64(len(piece))})
		prev = c
	}
	return fs
}

// Slice implements slicing.BlobSlicer: consumes the parent, returns the requested child.
func (fs *FixedSlicer) Slice(b buffer.Buffer, child digest.Digest) (buffer.Buffer, []slicing.BlobSlice) {
	data, err := b.ToByteSlice(1 << 20)
	if err != nil {
		return buffer.NewBufferFromError(err), nil
	}
	for _, p := range fs.Pieces {
		if p.Digest == child {
			return buffer.NewValidatedBufferFromByteSlice(append([]byte(nil), data[p.OffsetBytes:p.OffsetBytes+p.SizeBytes]...)), fs.Pieces
		}
	}
	return buffer.NewBufferFromError(status.Error(codes.InvalidArgument, "child not part of parent")), fs.Pieces
}

// GetFromComposite reads a child through the store.
func (s *Store) GetFromComposite(parent, child digest.Digest, sl slicing.BlobSlicer) ([]byte, error) {
	return s.BA.GetFromComposite(context.Background(), parent, child, sl).ToByteSlice(1 << 20)
}

// IndexDiscards reads the index discard counters of this store's storage type.
func (s *Store) IndexDiscards() float64 { return indexDiscards(s.StorageType) }

// CheckMonitors returns violations recorded by the monitors that hold for every history on an uncorrupted medium.
func (s *Store) CheckMonitors() []string {
	var out []string
	out = append(out, s.Alloc.Violations...)
	for _, m := range s.Media.Data.Misaligned {
		out = append(out, "misaligned device write: "+m)
	}
	if s.RBF.DoubleClosed > 0 {
		out = append(out, fmt.Sprintf("%d readers closed twice", s.RBF.DoubleClosed))
	}
	if s.RBF.ReadAfterClose > 0 {
		out = append(out, fmt.Sprintf("%d reads through a block reader that had already been closed (its pin on the block was gone)", s.RBF.ReadAfterClose))
	}
	return out
}

// OpenReaders lists readers that have not been closed.
func (s *Store) OpenReaders() string {
	var l []string
	for id, d := range s.RBF.OpenReaders {
		l = append(l, fmt.Sprintf("#%d:%s", id, d))
	}
	sort.Strings(l)
	return strings.Join(l, ",")
}

// PutWakeupReady reports whether the block list has unsynchronised data (non-blocking).
func (s *Store) PutWakeupReady() bool {
	s.Lock.RLock()
	ch := s.PBL.GetBlockPutWakeup()
	s.Lock.RUnlock()
	select {
	case <-ch:
		return true
	default:
		return false
	}
}

// ReleaseWakeupReady reports whether released blocks await a state write (non-blocking).
func (s *Store) ReleaseWakeupReady() bool {
	s.Lock.RLock()
	ch := s.PBL.GetBlockReleaseWakeup()
	s.Lock.RUnlock()
	select {
	case <-ch:
		return true
	default:
		return false
	}
}

// StepSyncers runs the syncer loops inline (sequential histories): while work is pending,
// one ProcessBlockRelease / ProcessBlockPut step each. Timers fire by virtual time advance.
func (s *Store) StepSyncers(ctx context.Context, max int) int {
	n := 0
	for i := 0; i < max; i++ {
		did := false
		if s.ReleaseWakeupReady() {
			s.Syncer.ProcessBlockRelease()
			did = true
			n++
		}
		if s.PutWakeupReady() {
			s.Syncer.ProcessBlockPut(ctx)
			did = true
			n++
		}
		if !did {
			break
		}
	}
	return n
}

// NeedsRefresh reports (without touching) whether the object currently lies in an old block.
func (s *Store) NeedsRefresh(d digest.Digest) bool {
	s.Lock.RLock()
	defer s.Lock.RUnlock()
	kf := digest.KeyWithoutInstance
	if s.Geo.AC || s.Geo.Hierarchical {
		kf = digest.KeyWithInstance
	}
	loc, err := s.KLM.Get(local.NewKeyFromString(d.GetKey(kf)))
	if err != nil {
		return false
	}
	_, nr := s.LBM.Get(loc)
	return nr
}
