//go:build verif

package lstore

import (
	"crypto/sha256"
	"fmt"
	"sort"
)

// slot is one independently losable unit of a block device: a sector of the data device or a
// record of the index device. options[0] is the durable content, options[i>0] the content after
// the i-th write to that unit since durability was last guaranteed.
type slot struct {
	off     int64
	options [][]byte
}

// deviceSlots splits the logged writes log[:n] of a device into durable base image and slots.
// unit is the sector / record size. For a synced device (sync=true) everything issued before
// the CALL of the last sync that completed successfully is durable.
func deviceSlots(base []byte, log []DevOp, n int, unit int, synced bool) ([]byte, []*slot) {
	img := append([]byte(nil), base...)
	durableUpTo := 0
	if synced {
		lastCall := -1
		for i := 0; i < n; i++ {
			switch log[i].Kind {
			case 'S':
				lastCall = i
			case 's':
				durableUpTo = lastCall
			case 'f':
				lastCall = -1
			}
		}
	}
	slots := map[int64]*slot{}
	for i := 0; i < n; i++ {
		o := log[i]
		if o.Kind != 'W' {
			continue
		}
		if i < durableUpTo {
			copy(img[o.Off:], o.Data)
			continue
		}
		// split into units
		for p := 0; p < len(o.Data); {
			uoff := (o.Off + int64(p)) / int64(unit) * int64(unit)
			within := int(o.Off + int64(p) - uoff)
			l := unit - within
			if l > len(o.Data)-p {
				l = len(o.Data) - p
			}
			s := slots[uoff]
			if s == nil {
				s = &slot{off: uoff, options: [][]byte{append([]byte(nil), img[uoff:min64(uoff+int64(unit), int64(len(img)))]...)}}
				slots[uoff] = s
			}
			// content after this piece = previous option of this unit with the piece applied
			prev := s.options[len(s.options)-1]
			next := append([]byte(nil), prev...)
			copy(next[within:], o.Data[p:p+l])
			s.options = append(s.options, next)
			p += l
		}
	}
	var out []*slot
	for _, s := range slots {
		out = append(out, s)
	}
	sort.Slice(out, func(i, j int) bool { return out[i].off < out[j].off })
	return img, out
}

func min64(a, b int64) int64 {
	if a < b {
		return a
	}
	return b
}

// DirState is one admissible post-crash content of the state directory.
type DirState struct {
	Files map[string][]byte
	Desc  string
}

// dirStates enumerates admissible directory contents after a crash following log[:n].
// Metadata operations (remove, create, rename) issued after the last directory sync survive as
// any prefix of their order (journalled metadata), and with subsets=true as any subset; the data
// of a file is durable only up to its last fsync, otherwise any of {nothing, half, all but one
// byte, everything} of what was written may be found.
func dirStates(base map[string][]byte, log []DirOp, n int, subsets bool) []DirState {
	type fileState struct {
		written []byte
		synced  int // durable prefix length
	}
	// Replay to find: durable directory (as of last dirsync), pending metadata ops, per-file content knowledge.
	durable := map[string]*fileState{}
	for k, v := range base {
		durable[k] = &fileState{written: append([]byte(nil), v...), synced: len(v)}
	}
	cur := map[string]*fileState{}
	for k, v := range durable {
		cur[k] = v
	}
	type mop struct {
		kind, name, to string
		fs             *fileState
	}
	var pending []mop
	for i := 0; i < n; i++ {
		o := log[i]
		switch o.Kind {
		case "remove":
			pending = append(pending, mop{kind: "remove", name: o.Name})
			delete(cur, o.Name)
		case "create":
			fs := &fileState{}
			cur[o.Name] = fs
			pending = append(pending, mop{kind: "create", name: o.Name, fs: fs})
		case "write":
			if fs := cur[o.Name]; fs != nil {
				fs.written = append(fs.written, o.Data...)
			}
		case "fsync":
			if fs := cur[o.Name]; fs != nil {
				fs.synced = len(fs.written)
			}
		case "rename":
			fs := cur[o.Name]
			delete(cur, o.Name)
			cur[o.To] = fs
			pending = append(pending, mop{kind: "rename", name: o.Name, to: o.To, fs: fs})
		case "dirsync":
			durable = map[string]*fileState{}
			for k, v := range cur {
				durable[k] = v
			}
			pending = nil
		}
	}
	apply := func(keep []bool) map[string]*fileState {
		d := map[string]*fileState{}
		for k, v := range durable {
			d[k] = v
		}
		for i, m := range pending {
			if !keep[i] {
				continue
			}
			switch m.kind {
			case "remove":
				delete(d, m.name)
			case "create":
				d[m.name] = m.fs
			case "rename":
				if fs, ok := d[m.name]; ok {
					delete(d, m.name)
					d[m.to] = fs
				} else if m.fs != nil {
					// source creation was lost but the rename survived: impossible under ordered
					// journalling; under the subset model treat as the rename being lost too
					continue
				}
			}
		}
		return d
	}
	var metas [][]bool
	for q := 0; q <= len(pending); q++ {
		k := make([]bool, len(pending))
		for i := 0; i < q; i++ {
			k[i] = true
		}
		metas = append(metas, k)
	}
	if subsets && len(pending) <= 6 {
		metas = nil
		for mask := 0; mask < 1<<len(pending); mask++ {
			k := make([]bool, len(pending))
			for i := range k {
				k[i] = mask&(1<<i) != 0
			}
			metas = append(metas, k)
		}
	}
	var out []DirState
	seen := map[string]bool{}
	for _, keep := range metas {
		d := apply(keep)
		// content options: product over files that have unsynced data
		names := make([]string, 0, len(d))
		for k := range d {
			names = append(names, k)
		}
		sort.Strings(names)
		var rec func(i int, files map[string][]byte, desc string)
		rec = func(i int, files map[string][]byte, desc string) {
			if i == len(names) {
				key := ""
				for _, nme := range names {
					key += nme + "=" + string(files[nme]) + ";"
				}
				h := fmt.Sprintf("%x", sha256.Sum256([]byte(key)))
				if !seen[h] {
					seen[h] = true
					cp := map[string][]byte{}
					for k, v := range files {
						cp[k] = v
					}
					out = append(out, DirState{Files: cp, Desc: fmt.Sprintf("meta%v%s", keep, desc)})
				}
				return
			}
			fs := d[names[i]]
			lens := []int{len(fs.written)}
			if fs.synced < len(fs.written) {
				lens = []int{fs.synced, (fs.synced + len(fs.written)) / 2, len(fs.written) - 1, len(fs.written)}
			}
			done := map[int]bool{}
			for _, l := range lens {
				if l < fs.synced || done[l] {
					continue
				}
				done[l] = true
				files[names[i]] = fs.written[:l]
				d2 := desc
				if l != len(fs.written) {
					d2 += fmt.Sprintf(" %s:%d/%d", names[i], l, len(fs.written))
				}
				rec(i+1, files, d2)
			}
		}
		rec(0, map[string][]byte{}, "")
	}
	return out
}

// CrashLimits bounds the media enumeration at one crash point.
type CrashLimits struct {
	FullProductMax int  // enumerate the full product of slot options when it has at most this many elements
	Deviation      int  // otherwise: all media with <= Deviation units differing from "everything issued survived" or from "nothing unsynced survived"
	DirSubsets     bool // directory metadata: all subsets instead of prefixes
}

// CrashStats counts what was enumerated.
type CrashStats struct {
	CrashPoints  int64
	Media        int64
	Distinct     int64
	FullProducts int64
	Bounded      int64
	MaxSlots     int
}

// EnumerateCrashMedia builds every admissible post-crash medium for a crash after the first p
// journal entries and calls f for each distinct one.
func (m *Media) EnumerateCrashMedia(p int, lim CrashLimits, st *CrashStats, f func(c *Media, desc string)) {
	nd, ni, nf := 0, 0, 0
	for _, e := range m.Journal[:p] {
		switch e.Dev {
		case 'D':
			nd = e.Idx + 1
		case 'I':
			ni = e.Idx + 1
		case 'F':
			nf = e.Idx + 1
		}
	}
	base := m.Base
	dataImg, dataSlots := deviceSlots(base.Data.Image, m.Data.Log, nd, m.Data.SectorSize, true)
	var idxImg []byte
	var idxSlots []*slot
	if m.Index != nil {
		idxImg, idxSlots = deviceSlots(base.Index.Image, m.Index.Log, ni, 66, false)
	}
	dirs := dirStates(base.Dir.Files, m.Dir.Log, nf, lim.DirSubsets)
	slots := append(append([]*slot{}, dataSlots...), idxSlots...)
	nData := len(dataSlots)
	if len(slots) > st.MaxSlots {
		st.MaxSlots = len(slots)
	}
	st.CrashPoints++
	product := 1
	for _, s := range slots {
		product *= len(s.options)
		if product > lim.FullProductMax {
			product = lim.FullProductMax + 1
			break
		}
	}
	seen := map[[32]byte]bool{}
	emit := func(choice []int, desc string) {
		di := append([]byte(nil), dataImg...)
		var ii []byte
		if m.Index != nil {
			ii = append([]byte(nil), idxImg...)
		}
		for k, s := range slots {
			if k < nData {
				copy(di[s.off:], s.options[choice[k]])
			} else {
				copy(ii[s.off:], s.options[choice[k]])
			}
		}
		for _, ds := range dirs {
			st.Media++
			h := sha256.New()
			h.Write(di)
			h.Write(ii)
			names := make([]string, 0, len(ds.Files))
			for k := range ds.Files {
				names = append(names, k)
			}
			sort.Strings(names)
			for _, nme := range names {
				h.Write([]byte(nme))
				h.Write([]byte{0})
				h.Write(ds.Files[nme])
				h.Write([]byte{0})
			}
			var key [32]byte
			copy(key[:], h.Sum(nil))
			if seen[key] {
				continue
			}
			seen[key] = true
			st.Distinct++
			c := &Media{Rand: &DetRand{Counter: m.Rand.Counter + 1000}}
			c.Data = m.Data.Clone()
			c.Data.Image = append([]byte(nil), di...)
			c.Data.Gates = false
			if m.Index != nil {
				c.Index = m.Index.Clone()
				c.Index.Image = append([]byte(nil), ii...)
				c.Index.Gates = false
			}
			c.Dir = NewDirectory(false)
			for k, v := range ds.Files {
				c.Dir.Files[k] = append([]byte(nil), v...)
			}
			c.wire()
			c.Base = c.snapshot()
			f(c, fmt.Sprintf("crash after journal entry %d/%d; unit choices %v (0=durable content); directory %s", p, len(m.Journal), choice, ds.Desc))
		}
	}
	choice := make([]int, len(slots))
	if product <= lim.FullProductMax {
		st.FullProducts++
		var rec func(k int)
		rec = func(k int) {
			if k == len(slots) {
				emit(choice, "")
				return
			}
			for o := range slots[k].options {
				choice[k] = o
				rec(k + 1)
			}
		}
		rec(0)
		return
	}
	st.Bounded++
	// Deviation-bounded: start from "latest content everywhere" and from "durable content everywhere",
	// change at most lim.Deviation units to any other option.
	for _, startLatest := range []bool{true, false} {
		baseChoice := make([]int, len(slots))
		for k, s := range slots {
			if startLatest {
				baseChoice[k] = len(s.options) - 1
			}
		}
		var rec func(from, left int)
		rec = func(from, left int) {
			emit(choice, "")
			if left == 0 {
				return
			}
			for k := from; k < len(slots); k++ {
				orig := choice[k]
				for o := range slots[k].options {
					if o == baseChoice[k] {
						continue
					}
					choice[k] = o
					rec(k+1, left-1)
				}
				choice[k] = orig
			}
		}
		copy(choice, baseChoice)
		rec(0, lim.Deviation)
	}
}
