//go:build verif

package lstore

import (
	"bytes"
	"context"
	"strings"
	"time"

	"google.golang.org/grpc/codes"
	"google.golang.org/grpc/status"

	"github.com/buildbarn/bb-storage/pkg/blobstore/local"
	"github.com/buildbarn/bb-storage/pkg/digest"
	pb "github.com/buildbarn/bb-storage/pkg/proto/blobstore/local"
	"google.golang.org/protobuf/proto"
)

// Restart opens a second store on a copy of the media (everything issued so far survives:
// the process-crash / graceful-restart medium). Gates are switched off in the copy.
func (s *Store) Restart(g Geometry) *Store {
	m := s.Media.Clone()
	m.Data.Gates, m.Dir.Gates = false, false
	if m.Index != nil {
		m.Index.Gates = false
	}
	g.DataGates, g.IndexGates, g.DirGates = false, false, false
	return Open(g, m)
}

// RestartWithState restarts on a copy of the media whose state file is replaced by st (nil = no state file).
func (s *Store) RestartWithState(g Geometry, st []byte) *Store {
	m := s.Media.Clone()
	m.Data.Gates, m.Dir.Gates = false, false
	if m.Index != nil {
		m.Index.Gates = false
	}
	delete(m.Dir.Files, "state.new")
	if st == nil {
		delete(m.Dir.Files, "state")
	} else {
		m.Dir.Files["state"] = append([]byte(nil), st...)
	}
	g.DataGates, g.IndexGates, g.DirGates = false, false, false
	return Open(g, m)
}

// StateBytes marshals a persistent state exactly as the state store does.
func StateBytes(st *pb.PersistentState) []byte {
	b, err := proto.Marshal(st)
	if err != nil {
		panic(err)
	}
	return b
}

// Held reports (without touching) whether the live store's index still resolves the object.
func (s *Store) Held(d digest.Digest) bool {
	s.Lock.RLock()
	defer s.Lock.RUnlock()
	if s.Geo.Hierarchical {
		for _, pd := range d.GetDigestsWithParentInstanceNames() {
			if _, err := s.KLM.Get(local.NewKeyFromString(pd.GetKey(digest.KeyWithInstance))); err == nil {
				return true
			}
		}
		return false
	}
	kf := digest.KeyWithoutInstance
	if s.Geo.AC {
		kf = digest.KeyWithInstance
	}
	_, err := s.KLM.Get(local.NewKeyFromString(d.GetKey(kf)))
	return err == nil
}

// ReadBack reads an object from a (restarted) store and compares it.
func (s *Store) ReadBack(d digest.Digest, want []byte) (bool, error) {
	got, err := s.BA.Get(context.Background(), d).ToByteSlice(1 << 20)
	if err != nil {
		return false, err
	}
	return bytes.Equal(got, want), nil
}

// Served reports whether a (restarted) store serves the object: its index resolves it and a read
// returns exactly the content. A read that cannot refresh for lack of a free block (a resource
// condition of the restarted store, not a lost object) counts as served when the index resolves it.
func (s *Store) Served(d digest.Digest, want []byte) (bool, error) {
	if !s.Held(d) {
		return false, nil
	}
	got, err := s.BA.Get(context.Background(), d).ToByteSlice(1 << 20)
	if err != nil {
		if status.Code(err) == codes.Unavailable && strings.Contains(err.Error(), "Failed to refresh blob") {
			return true, nil
		}
		return false, err
	}
	return bytes.Equal(got, want), nil
}

// Ack is one acknowledged upload.
type Ack struct {
	Obj Obj
	At  time.Time // virtual time at which Put returned nil
	Seq int       // order of acknowledgement
}
