//go:build verif

package lstore

import (
	"strings"

	"github.com/prometheus/client_golang/prometheus"
	dto "github.com/prometheus/client_model/go"
)

func gather() []*dto.MetricFamily {
	mfs, _ := prometheus.DefaultGatherer.Gather()
	return mfs
}

func labelIs(m *dto.Metric, name, value string) bool {
	for _, l := range m.Label {
		if l.GetName() == name && l.GetValue() == value {
			return true
		}
	}
	return false
}

// indexDiscards sums put_iterations{outcome=TooManyAttempts} count, put_too_many_iterations_total
// for one storage type. (get_too_many_attempts is a lookup limit, not a discard.)
func indexDiscards(storageType string) float64 {
	total := 0.0
	for _, mf := range gather() {
		n := mf.GetName()
		if !strings.HasPrefix(n, "buildbarn_blobstore_hashing_key_location_map_") {
			continue
		}
		for _, m := range mf.Metric {
			if !labelIs(m, "storage_type", storageType) {
				continue
			}
			switch {
			case strings.HasSuffix(n, "put_iterations") && labelIs(m, "outcome", "TooManyAttempts"):
				total += float64(m.GetHistogram().GetSampleCount())
			case strings.HasSuffix(n, "put_too_many_iterations_total"):
				total += m.GetCounter().GetValue()
			}
		}
	}
	return total
}

// GetTooManyAttempts reads the lookup-limit counter.
func GetTooManyAttempts(storageType string) float64 {
	total := 0.0
	for _, mf := range gather() {
		if mf.GetName() != "buildbarn_blobstore_hashing_key_location_map_get_too_many_attempts_total" {
			continue
		}
		for _, m := range mf.Metric {
			if labelIs(m, "storage_type", storageType) {
				total += m.GetCounter().GetValue()
			}
		}
	}
	return total
}
