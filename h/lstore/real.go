//go:build verif

package lstore

import (
	"context"
	"os"
	"reflect"
	"unsafe"

	"github.com/buildbarn/bb-storage/pkg/blobstore"
	"github.com/buildbarn/bb-storage/pkg/blobstore/configuration"
	"github.com/buildbarn/bb-storage/pkg/blobstore/local"
	"github.com/buildbarn/bb-storage/pkg/clock"
	"github.com/buildbarn/bb-storage/pkg/digest"
	"github.com/buildbarn/bb-storage/pkg/eviction"
	"github.com/buildbarn/bb-storage/pkg/program"
	pb "github.com/buildbarn/bb-storage/pkg/proto/configuration/blobstore"
	bdpb "github.com/buildbarn/bb-storage/pkg/proto/configuration/blockdevice"
	"github.com/buildbarn/bb-storage/pkg/random"
	"github.com/buildbarn/bb-storage/pkg/util"
	"github.com/buildbarn/bb-storage/pkg/verifshim/vsched"
	"github.com/buildbarn/bb-storage/pkg/verifshim/vseam"
	"github.com/buildbarn/bb-storage/pkg/verifshim/vsync"
	"google.golang.org/protobuf/types/known/durationpb"
	"time"
)

// Geometry of a SimBlockDevice as seen by the real wiring.
func (d *SimBlockDevice) Geometry() (int, int64) {
	return d.SectorSize, int64(len(d.Image) / d.SectorSize)
}

// ZeroInitialize is what NewBlockDeviceFromFile(..., zeroInitialize=true) does.
func (d *SimBlockDevice) ZeroInitialize() {
	for i := range d.Image {
		d.Image[i] = 0
	}
}

// UseRealWiring selects whether Open goes through the repository's own
// configuration.NewBlobAccessFromConfiguration (default) or through the hand-written copy of that
// wiring (VERIF_WIRING=harness, or for geometries no configuration file can express).
var UseRealWiring = os.Getenv("VERIF_WIRING") != "harness"

// Expressible reports whether a configuration message can describe the geometry.
func (g Geometry) Expressible() bool {
	return g.Mutable == g.AC && !(g.Hierarchical && g.AC) && !(g.AC && g.New != 1)
}

// creator wraps the repository's CAS / AC creator: only the read buffer factory is substituted.
type creator struct {
	configuration.BlobAccessCreator
	rbf  blobstore.ReadBufferFactory
	lock **vsync.RWMutex
}

func (c creator) GetReadBufferFactory() blobstore.ReadBufferFactory { return c.rbf }

func (c creator) NewHierarchicalInstanceNamesLocalBlobAccess(klm local.KeyLocationMap, lbm local.LocationBlobMap, globalLock *vsync.RWMutex) (blobstore.BlobAccess, error) {
	*c.lock = globalLock
	return c.BlobAccessCreator.NewHierarchicalInstanceNamesLocalBlobAccess(klm, lbm, globalLock)
}

// group runs program routines as scheduler threads.
type group struct {
	ctx    context.Context
	daemon bool
	onExit func()
	manual bool
}

func (g *group) Go(r program.Routine) {
	if g.manual {
		return
	}
	vsched.GoNamed("syncer-put", true, func() {
		r(g.ctx, g, g)
		if g.onExit != nil {
			g.onExit()
		}
	})
}

// OpenOptions control how the syncer loops of a persistent store are run.
type OpenOptions struct {
	// Ctx, when non-nil, starts the real wiring's syncer loops as daemon threads; the put loop ends
	// when Ctx is cancelled and OnPutLoopExit is called then. When nil the loops are not started and
	// the harness steps the syncer inline (StepSyncers).
	Ctx           context.Context
	OnPutLoopExit func()
}

// openReal assembles the store through configuration.NewBlobAccessFromConfiguration.
func openReal(g Geometry, m *Media, opt OpenOptions) *Store {
	random.CryptoThreadSafeGenerator = m.Rand
	clock.SystemClock = VClock{}
	s := &Store{Geo: g, Media: m, Errors: &ErrorLog{}, Real: true}
	util.DefaultErrorLogger = s.Errors
	s.StorageType = "cas"
	var base blobstore.ReadBufferFactory = blobstore.CASReadBufferFactory
	var inner configuration.BlobAccessCreator = configuration.NewCASBlobAccessCreator(nil, 1<<20, nil)
	if g.AC {
		base = blobstore.ACReadBufferFactory
		s.StorageType = "ac"
		inner = configuration.NewACBlobAccessCreator(nil, nil, 1<<20)
	}
	if g.RawReads {
		base = rawFactory{}
	}
	base = withIntegrityCache(g, base)
	s.RBF = &TrackingRBF{Base: base}
	cr := creator{BlobAccessCreator: inner, rbf: s.RBF, lock: &s.Lock}

	lc := &pb.LocalBlobAccessConfiguration{
		KeyLocationMapMaximumGetAttempts: g.GetAttempts,
		KeyLocationMapMaximumPutAttempts: int64(g.PutAttempts),
		OldBlocks:                        int32(g.Old),
		CurrentBlocks:                    int32(g.Current),
		NewBlocks:                        int32(g.New),
		HierarchicalInstanceNames:        g.Hierarchical,
	}
	vseam.Devices = map[string]vseam.SimDevice{}
	if g.IndexOnDevice {
		vseam.Devices["verifsim:index"] = m.Index
		lc.KeyLocationMapBackend = &pb.LocalBlobAccessConfiguration_KeyLocationMapOnBlockDevice{
			KeyLocationMapOnBlockDevice: &bdpb.Configuration{Source: &bdpb.Configuration_File{File: &bdpb.FileConfiguration{Path: "verifsim:index", SizeBytes: int64(len(m.Index.Image))}}},
		}
	} else {
		lc.KeyLocationMapBackend = &pb.LocalBlobAccessConfiguration_KeyLocationMapInMemory_{
			KeyLocationMapInMemory: &pb.LocalBlobAccessConfiguration_KeyLocationMapInMemory{Entries: int64(g.IndexSlots)},
		}
	}
	if g.InMemoryBlocks {
		lc.BlocksBackend = &pb.LocalBlobAccessConfiguration_BlocksInMemory_{
			BlocksInMemory: &pb.LocalBlobAccessConfiguration_BlocksInMemory{BlockSizeBytes: int64(g.BlockSize())},
		}
	} else {
		vseam.Devices["verifsim:data"] = m.Data
		lc.BlocksBackend = &pb.LocalBlobAccessConfiguration_BlocksOnBlockDevice_{
			BlocksOnBlockDevice: &pb.LocalBlobAccessConfiguration_BlocksOnBlockDevice{
				Source:      &bdpb.Configuration{Source: &bdpb.Configuration_File{File: &bdpb.FileConfiguration{Path: "verifsim:data", SizeBytes: int64(len(m.Data.Image))}}},
				SpareBlocks: int32(g.Spare),
			},
		}
	}
	vseam.CurrentDirectory = nil
	if g.Persistent {
		lc.Persistent = &pb.LocalBlobAccessConfiguration_Persistent{StateDirectoryPath: "/verifsim/state", MinimumEpochInterval: durationpb.New(g.MinEpochInterval)}
		vseam.CurrentDirectory = m.Dir
	}
	// Observe (and decorate) what the real wiring constructs.
	var flat blobstore.BlobAccess
	vseam.Hooks = map[string]func(any) any{
		"NewBlockDeviceBackedBlockAllocator": func(v any) any {
			s.Alloc = NewTrackingAllocator(v.(local.BlockAllocator), g, m.Data)
			s.Alloc.RBF = s.RBF
			return local.BlockAllocator(s.Alloc)
		},
		"NewInMemoryBlockAllocator": func(v any) any {
			s.Alloc = NewTrackingAllocator(v.(local.BlockAllocator), g, m.Data)
			s.Alloc.RBF = s.RBF
			return local.BlockAllocator(s.Alloc)
		},
		"NewDirectoryBackedPersistentStateStore": func(v any) any {
			s.StateStore = &TrackingStateStore{Base: v.(local.PersistentStateStore)}
			return local.PersistentStateStore(s.StateStore)
		},
		"NewPersistentBlockList":          func(v any) any { s.PBL = v.(*local.PersistentBlockList); return nil },
		"NewPeriodicSyncer":               func(v any) any { s.Syncer = v.(*local.PeriodicSyncer); return nil },
		"NewOldCurrentNewLocationBlobMap": func(v any) any { s.LBM = v.(*local.OldCurrentNewLocationBlobMap); return nil },
		"NewHashingKeyLocationMap":        func(v any) any { s.KLM = v.(local.KeyLocationMap); return nil },
		"NewFlatBlobAccess":               func(v any) any { flat = v.(blobstore.BlobAccess); s.BA = flat; return nil },
		"NewHierarchicalCASBlobAccess":    func(v any) any { s.BA = v.(blobstore.BlobAccess); return nil },
	}
	grp := &group{ctx: opt.Ctx, onExit: opt.OnPutLoopExit, manual: opt.Ctx == nil}
	if grp.manual {
		vsched.SetSpawnMode(vsched.SpawnSuppress)
	} else {
		vsched.SetSpawnMode(vsched.SpawnDaemon)
	}
	info, err := configuration.NewBlobAccessFromConfiguration(grp, &pb.BlobAccessConfiguration{Backend: &pb.BlobAccessConfiguration_Local{Local: lc}}, cr)
	vsched.SetSpawnMode(vsched.SpawnNormal)
	vseam.Hooks = map[string]func(any) any{}
	if err != nil {
		vsched.HarnessFail("NewBlobAccessFromConfiguration: %v", err)
	}
	if s.Alloc == nil || s.KLM == nil || s.LBM == nil || s.BA == nil || (g.Persistent && (s.PBL == nil || s.Syncer == nil || s.StateStore == nil)) {
		vsched.HarnessFail("the real wiring did not construct the expected components (alloc=%v klm=%v lbm=%v ba=%v pbl=%v syncer=%v)", s.Alloc != nil, s.KLM != nil, s.LBM != nil, s.BA != nil, s.PBL != nil, s.Syncer != nil)
	}
	if flat != nil {
		s.Lock = lockOf(flat)
	}
	if g.ExistenceCache {
		// what cas_blob_access_creator.go does for an existence_caching backend: the cache is keyed by the
		// digest key format the nested backend's BlobAccessInfo announces
		s.BA = blobstore.NewExistenceCachingBlobAccess(info.BlobAccess, digest.NewExistenceCache(VClock{}, info.DigestKeyFormat, 16, time.Hour, eviction.NewLRUSet[string]()))
	}
	if s.Lock == nil {
		vsched.HarnessFail("could not obtain the store's lock from the real wiring")
	}
	if g.Persistent {
		s.InitialState = s.StateStore.FirstRead
		s.Alloc.LastWrittenState = func() *localState {
			if n := len(s.StateStore.Written); n > 0 {
				return s.StateStore.Written[n-1]
			}
			return s.InitialState
		}
		s.Alloc.AfterCrash = afterCrashJudge(m, s.everListed)
		s.HashInit = s.InitialState.GetKeyLocationMapHashInitialization()
		s.InitialBlocks = s.Alloc.Reattached
	}
	s.Geo.ErrorRetry = 10 * time.Second // hard-coded in new_blob_access.go
	vsched.Count("stores_assembled_by_NewBlobAccessFromConfiguration", 1)
	return s
}

// Reactivate points the process-wide collaborators the repository reads through exported variables (random
// generator, error logger, clock) back at this store, after another store (e.g. a recovered copy that was
// examined in between) has been opened. Without it this store would draw its next hash seeds from the
// other store's generator.
func (s *Store) Reactivate() {
	random.CryptoThreadSafeGenerator = s.Media.Rand
	util.DefaultErrorLogger = s.Errors
	clock.SystemClock = VClock{}
}

// lockOf extracts the *sync.RWMutex a flat local BlobAccess was given (unexported field "lock").
func lockOf(ba blobstore.BlobAccess) *vsync.RWMutex {
	v := reflect.ValueOf(ba)
	if v.Kind() != reflect.Ptr || v.Elem().Kind() != reflect.Struct {
		return nil
	}
	f := v.Elem().FieldByName("lock")
	if !f.IsValid() || f.Kind() != reflect.Ptr {
		return nil
	}
	p := reflect.NewAt(f.Type(), unsafe.Pointer(f.UnsafeAddr())).Elem().Interface()
	l, _ := p.(*vsync.RWMutex)
	return l
}
