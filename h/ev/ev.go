// Package ev is the reporting side of every check: it collects coverage
// counters, samples and violations, matches violations against
// /verif/known_findings.json, writes /verif/evidence/<ID>.json and replay
// artefacts, prints the VIOLATION / KNOWN-FINDING lines and picks the exit code.
package ev

import (
	"crypto/sha256"
	"encoding/hex"
	"encoding/json"
	"flag"
	"fmt"
	"os"
	"path/filepath"
	"runtime/pprof"
	"sort"
	"strconv"
	"strings"
	"sync"
	"time"
)

// VerifDir is where evidence, replays and known findings live.
var VerifDir = func() string {
	if d := os.Getenv("VERIF_DIR"); d != "" {
		return d
	}
	return "/verif"
}()

// Sub is the coverage record of one sub-check (one scenario / one space).
type Sub struct {
	Name           string         `json:"name"`
	Engine         string         `json:"engine"`
	Space          string         `json:"space"`
	Evaluations    int64          `json:"evaluations"`
	Nontrivial     int64          `json:"distinct_nontrivial"`
	States         int64          `json:"states"`
	Transitions    int64          `json:"transitions"`
	Validated      int64          `json:"traces_validated_against_impl"`
	Outcomes       int64          `json:"distinct_outcomes"`
	BoundCompleted string         `json:"bound_completed,omitempty"`
	Exhaustive     bool           `json:"exhaustive"`
	CapsHit        []string       `json:"caps_hit,omitempty"`
	Extra          map[string]any `json:"extra,omitempty"`
	WallS          float64        `json:"wall_s"`
}

// Violation is one failing case.
type Violation struct {
	Signature string `json:"signature"` // stable identity used for known-finding matching
	Sub       string `json:"sub"`
	Message   string `json:"message"`
	Case      any    `json:"case"` // whatever the sub-check needs to replay it
}

type finding struct {
	Property    string `json:"property"`
	Status      string `json:"status"` // "open" or "fixed"
	Signature   string `json:"signature"`
	Commit      string `json:"commit,omitempty"`
	Description string `json:"description"`
}

var stopProfile = func() {}

// StopProfile flushes the optional CPU profile (workers call it before exiting).
func StopProfile() { stopProfile() }

// Run is one invocation of a check.
type Run struct {
	Prop    string
	Tier    string
	Seed    int64
	Replay  string
	Only    string
	Shard   string
	Level   string
	start   time.Time
	mu      sync.Mutex
	subs    []*Sub
	samples []any
	viols   []Violation
	seenSig map[string]int
	assume  []string
	rule    string
	notes   []string
	harness []string
}

// DeferHarnessError records a harness error of one sub-check without aborting: violations found by
// other sub-checks are still reported (exit 1 takes precedence); with no violation the run exits 2.
func (r *Run) DeferHarnessError(format string, a ...any) {
	r.mu.Lock()
	r.harness = append(r.harness, fmt.Sprintf(format, a...))
	r.mu.Unlock()
}

// Start parses the common flags.
func Start(prop string) *Run {
	r := &Run{Prop: prop, Level: "model_checking", start: time.Now(), seenSig: map[string]int{}}
	tier := flag.String("tier", os.Getenv("VERIF_TIER"), "quick|thorough")
	replay := flag.String("replay", "", "replay file")
	only := flag.String("only", "", "run only sub-checks whose name contains this")
	shard := flag.String("shard", "", "internal: worker shard spec")
	flag.Parse()
	if pf := os.Getenv("VERIF_CPUPROFILE"); pf != "" && *shard != "" {
		if f, err := os.Create(fmt.Sprintf("%s.%d", pf, os.Getpid())); err == nil {
			pprof.StartCPUProfile(f)
			stopProfile = pprof.StopCPUProfile
		}
	}
	r.Tier = *tier
	if r.Tier != "thorough" {
		r.Tier = "quick"
	}
	r.Replay, r.Only, r.Shard = *replay, *only, *shard
	if s := os.Getenv("VERIF_SEED"); s != "" {
		if v, err := strconv.ParseInt(s, 10, 64); err == nil {
			r.Seed = v
		}
	}
	return r
}

// Thorough reports whether the thorough tier was requested.
func (r *Run) Thorough() bool { return r.Tier == "thorough" }

// Want reports whether a sub-check should run under --only.
func (r *Run) Want(name string) bool { return r.Only == "" || strings.Contains(name, r.Only) }

// Pick returns q for quick and t for thorough.
func Pick[T any](r *Run, q, t T) T {
	if r.Thorough() {
		return t
	}
	return q
}

// Assume records an assumption for the evidence file.
func (r *Run) Assume(s string) { r.mu.Lock(); r.assume = append(r.assume, s); r.mu.Unlock() }

// Rule sets the evidence "rule" text.
func (r *Run) Rule(s string) { r.rule = s }

// Note adds a free-text note.
func (r *Run) Note(s string) { r.mu.Lock(); r.notes = append(r.notes, s); r.mu.Unlock() }

// NewSub registers a sub-check.
func (r *Run) NewSub(name, engine, space string) *Sub {
	s := &Sub{Name: name, Engine: engine, Space: space}
	r.mu.Lock()
	r.subs = append(r.subs, s)
	r.mu.Unlock()
	return s
}

// AddSub registers an already filled sub-check record.
func (r *Run) AddSub(s *Sub) { r.mu.Lock(); r.subs = append(r.subs, s); r.mu.Unlock() }

// Sample keeps up to 12 samples.
func (r *Run) Sample(x any) {
	r.mu.Lock()
	if len(r.samples) < 12 {
		r.samples = append(r.samples, x)
	}
	r.mu.Unlock()
}

// Violate records a violation (at most 3 per signature, 40 overall are kept).
func (r *Run) Violate(v Violation) {
	r.mu.Lock()
	defer r.mu.Unlock()
	r.seenSig[v.Signature]++
	if r.seenSig[v.Signature] > 3 || len(r.viols) >= 40 {
		return
	}
	r.viols = append(r.viols, v)
}

// Violations returns the number of distinct signatures seen so far.
func (r *Run) Violations() int { r.mu.Lock(); defer r.mu.Unlock(); return len(r.seenSig) }

// HarnessError aborts with exit 2: tooling failure, never a VIOLATION line.
func HarnessError(format string, a ...any) {
	fmt.Printf("HARNESS-ERROR "+format+"\n", a...)
	os.Exit(2)
}

func loadFindings() []finding {
	b, err := os.ReadFile(filepath.Join(VerifDir, "known_findings.json"))
	if err != nil {
		return nil
	}
	var f struct {
		Findings []finding `json:"findings"`
	}
	if err := json.Unmarshal(b, &f); err != nil {
		HarnessError("known_findings.json unreadable: %v", err)
	}
	return f.Findings
}

// ReplayFile is the on-disk replay artefact.
type ReplayFile struct {
	Property  string          `json:"property"`
	Sub       string          `json:"sub"`
	Signature string          `json:"signature"`
	Message   string          `json:"message"`
	Case      json.RawMessage `json:"case"`
}

// LoadReplay reads a replay artefact.
func LoadReplay(path string) ReplayFile {
	b, err := os.ReadFile(path)
	if err != nil {
		HarnessError("cannot read replay %s: %v", path, err)
	}
	var rf ReplayFile
	if err := json.Unmarshal(b, &rf); err != nil {
		HarnessError("cannot parse replay %s: %v", path, err)
	}
	return rf
}

// Finish writes evidence, prints result lines and exits.
func (r *Run) Finish() {
	wall := time.Since(r.start).Seconds()
	findings := loadFindings()
	open := map[string]finding{}
	for _, f := range findings {
		if f.Property == r.Prop && f.Status == "open" {
			open[f.Signature] = f
		}
	}
	// Aggregate.
	var evals, nontriv, states, trans, valid, outcomes int64
	exhaustive := true
	var caps []string
	var bounds []string
	for _, s := range r.subs {
		evals += s.Evaluations
		nontriv += s.Nontrivial
		states += s.States
		trans += s.Transitions
		valid += s.Validated
		outcomes += s.Outcomes
		if !s.Exhaustive {
			exhaustive = false
		}
		for _, c := range s.CapsHit {
			caps = append(caps, s.Name+": "+c)
		}
		if s.BoundCompleted != "" {
			bounds = append(bounds, s.Name+": "+s.BoundCompleted)
		}
	}
	unlisted := 0
	knownSeen := map[string]bool{}
	var vioOut []map[string]any
	os.MkdirAll(filepath.Join(VerifDir, "replays"), 0o755)
	for _, v := range r.viols {
		if f, ok := open[v.Signature]; ok {
			if !knownSeen[v.Signature] {
				knownSeen[v.Signature] = true
				fmt.Printf("KNOWN-FINDING: property=%s %s (%s)\n", r.Prop, f.Description, v.Signature)
			}
			continue
		}
		unlisted++
		cb, _ := json.Marshal(v.Case)
		rf := ReplayFile{Property: r.Prop, Sub: v.Sub, Signature: v.Signature, Message: v.Message, Case: cb}
		b, _ := json.MarshalIndent(rf, "", " ")
		h := sha256.Sum256(b)
		path := filepath.Join(VerifDir, "replays", r.Prop+"-"+hex.EncodeToString(h[:6])+".json")
		os.WriteFile(path, b, 0o644)
		fmt.Printf("VIOLATION property=%s replay=%s\n", r.Prop, path)
		fmt.Printf("  sub=%s signature=%s\n  %s\n", v.Sub, v.Signature, strings.ReplaceAll(v.Message, "\n", "\n  "))
		vioOut = append(vioOut, map[string]any{"signature": v.Signature, "sub": v.Sub, "message": v.Message, "replay": path})
	}
	sigs := make([]string, 0, len(r.seenSig))
	for s := range r.seenSig {
		sigs = append(sigs, s)
	}
	sort.Strings(sigs)
	if len(r.samples) == 0 {
		r.samples = append(r.samples, "no sample recorded")
	}
	if states == 0 {
		states = evals
	}
	if trans == 0 {
		trans = evals
	}
	cov := map[string]any{
		"evaluations":                   evals,
		"distinct_nontrivial":           nontriv,
		"rule":                          r.rule,
		"samples":                       r.samples,
		"states":                        states,
		"transitions":                   trans,
		"traces_validated_against_impl": valid,
		"distinct_outcomes":             outcomes,
		"exhaustive":                    exhaustive,
		"caps_hit":                      caps,
		"bound_completed":               bounds,
		"sub_checks":                    r.subs,
		"violation_signatures":          sigs,
		"violations_detail":             vioOut,
		"notes":                         r.notes,
	}
	evd := map[string]any{
		"property_id": r.Prop,
		"tier":        r.Tier,
		"seed":        r.Seed,
		"level":       r.Level,
		"coverage":    cov,
		"assumptions": r.assume,
		"wall_s":      wall,
		"violations":  unlisted,
	}
	if r.Only == "" && r.Replay == "" {
		// A self-test run against a patched overlay (VERIF_MUTANT) never overwrites the
		// evidence of the unchanged tree: its evidence goes to evidence-mutant/ (ignored by git).
		evdir := "evidence"
		if os.Getenv("VERIF_MUTANT") != "" {
			evdir = "evidence-mutant"
		}
		os.MkdirAll(filepath.Join(VerifDir, evdir), 0o755)
		b, _ := json.MarshalIndent(evd, "", " ")
		if err := os.WriteFile(filepath.Join(VerifDir, evdir, r.Prop+".json"), b, 0o644); err != nil {
			HarnessError("cannot write evidence: %v", err)
		}
	}
	fmt.Printf("SUMMARY property=%s tier=%s evaluations=%d states=%d transitions=%d nontrivial=%d outcomes=%d exhaustive=%v violations=%d known=%d wall=%.1fs\n",
		r.Prop, r.Tier, evals, states, trans, nontriv, outcomes, exhaustive, unlisted, len(knownSeen), wall)
	for _, s := range r.subs {
		fmt.Printf("  sub %-40s evals=%-9d nontrivial=%-8d outcomes=%-6d exhaustive=%v %s %.1fs\n", s.Name, s.Evaluations, s.Nontrivial, s.Outcomes, s.Exhaustive, s.BoundCompleted, s.WallS)
	}
	for _, h := range r.harness {
		fmt.Printf("HARNESS-ERROR %s\n", h)
	}
	if unlisted > 0 {
		os.Exit(1)
	}
	if len(r.harness) > 0 {
		os.Exit(2)
	}
	os.Exit(0)
}

// Set is a concurrency-safe set of strings for counting distinct things.
type Set struct {
	mu sync.Mutex
	m  map[string]struct{}
}

// Add inserts s.
func (s *Set) Add(x string) {
	s.mu.Lock()
	if s.m == nil {
		s.m = map[string]struct{}{}
	}
	s.m[x] = struct{}{}
	s.mu.Unlock()
}

// Len returns the cardinality.
func (s *Set) Len() int64 { s.mu.Lock(); defer s.mu.Unlock(); return int64(len(s.m)) }

// Timer measures a sub-check.
func (s *Sub) Timer() func() {
	t := time.Now()
	return func() { s.WallS = time.Since(t).Seconds() }
}

// Hash returns a short stable hash of any JSON-encodable value.
func Hash(x any) string {
	b, _ := json.Marshal(x)
	h := sha256.Sum256(b)
	return hex.EncodeToString(h[:8])
}

// MustJSON decodes or aborts with a harness error.
func MustJSON(b []byte, v any) {
	if err := json.Unmarshal(b, v); err != nil {
		HarnessError("bad replay case: %v", err)
	}
}
