#!/bin/bash
# setup_cmd: offline; regenerates go.mod/go.sum from /repo, builds the rewriter
# and warms the Go build cache for every harness (plain and instrumented).
set -u
. /verif/env.sh
cd /verif/h || exit 1
/verif/tools/genmod.sh || exit 1
SCR=$(mktemp -d /var/tmp/verif-setup-XXXXXX)
trap 'rm -rf "$SCR"' EXIT
rc=0
if [ -d vinstr ]; then
  go build -o "$SCR/vinstr" ./vinstr || rc=1
  "$SCR/vinstr" -repo /repo -shim /verif/h/shim -out "$SCR/ov" >/dev/null || rc=1
fi
for d in cmd/*/; do
  n=$(basename "$d")
  if [ -f "$d/INSTRUMENTED" ]; then
    go build -overlay "$SCR/ov/overlay.json" -tags verif -o "$SCR/$n" "./cmd/$n" || rc=1
  else
    go build -o "$SCR/$n" "./cmd/$n" || rc=1
  fi
done
exit $rc
